#!/bin/bash
# usage: adopt8.sh <prop> <src _out dir> : copies m1 of an eighth-round agent as m15 into seeded/ and evaluates it
prop=$1; src=$2
n=$prop-m15; mkdir -p /verif/seeded/$n
cp $src/m1/patch.diff $src/m1/demo.py $src/m1/notes.md /verif/seeded/$n/
/verif/tools/evalmut.sh $prop /verif/seeded/$n $n
