#!/bin/bash
# usage: adopt5.sh <prop> <src _out dir> : copies m1,m2 of a fifth-round agent as m9,m10 into seeded/ and evaluates them
prop=$1; src=$2
for k in 1 2; do
  n=$prop-m$((k+8)); mkdir -p /verif/seeded/$n
  cp $src/m$k/patch.diff $src/m$k/demo.py $src/m$k/notes.md /verif/seeded/$n/
done
for k in 9 10; do /verif/tools/evalmut.sh $prop /verif/seeded/$prop-m$k $prop-m$k & done; wait
