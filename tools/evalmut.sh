#!/bin/bash
# usage: evalmut.sh <prop> <mutant-dir (holding patch.diff, demo.py)> <name> [tier]
# Confirms a seeded change in a scratch worktree (tests pass, demo fails with / passes without),
# then runs the property's check against that worktree (VERIF_REPO) and reports the verdict.
prop=$1; dir=$2; name=$3; tier=${4:-quick}
wt=/tmp/ev/$name
mkdir -p /tmp/ev
git -C /repo worktree remove --force $wt >/dev/null 2>&1
git -C /repo worktree add --detach $wt HEAD -q || exit 3
cd $wt
if ! git apply $dir/patch.diff; then echo "RESULT $name patch-does-not-apply"; git -C /repo worktree remove --force $wt; exit 3; fi
PYTHONPATH=$wt timeout 120 /venv/bin/python $dir/demo.py >/tmp/ev/$name.demo_with.log 2>&1; dw=$?
if [ -z "$SKIPTESTS" ]; then
  PYTHONPATH=$wt timeout 900 /venv/bin/python -m pytest -q -p no:cacheprovider --timeout=900 tests >/tmp/ev/$name.tests.log 2>&1; tr=$?
  tests=$(grep -E "passed|failed" /tmp/ev/$name.tests.log | tail -1)
else tr=0; tests="skipped"; fi
rm -f tests/debug.dot tests/debug.svg
cd /verif
VERIF_EVIDENCE_DIR=/tmp/ev/evidence-$name VERIF_SKIP_MC=1 VERIF_REPO=$wt ./check $prop --tier $tier > /tmp/ev/$name.check.log 2>&1; cr=$?
nviol=$(grep -c "^VIOLATION property=$prop" /tmp/ev/$name.check.log)
cd $wt && git checkout -q -- . 
PYTHONPATH=$wt timeout 120 /venv/bin/python $dir/demo.py >/tmp/ev/$name.demo_without.log 2>&1; dwo=$?
cd /verif
git -C /repo worktree remove --force $wt
echo "RESULT $name prop=$prop demo_with=$dw demo_without=$dwo tests_rc=$tr [$tests] check_rc=$cr violations=$nviol :: $(tail -1 /tmp/ev/$name.check.log | cut -c1-200)"
