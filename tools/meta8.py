#!/venv/bin/python
"""usage: meta8.py <RESULT line file>: writes seeded/<id>/meta.json for eighth-round changes from evalmut.sh RESULT lines"""
import json, os, re, sys
ROOT = os.path.dirname(os.path.dirname(os.path.abspath(__file__)))
for line in open(sys.argv[1]):
    m = re.match(r"RESULT (\S+) prop=(\S+) demo_with=(\d+) demo_without=(\d+) tests_rc=(\d+) \[([^\]]*)\] check_rc=(\d+) violations=(\d+)", line)
    if not m:
        continue
    name, prop = m.group(1), m.group(2)
    d = os.path.join(ROOT, "seeded", name)
    notes = open(os.path.join(d, "notes.md")).read().strip().splitlines()
    title = next((l.lstrip("# ").strip() for l in notes if l.strip()), name)
    meta = {
        "id": name, "property": prop,
        "origin": "independent sub-agent (eighth round: given only the property text and a scratch worktree; asked for one change away from the most obvious line implementing the property, needing a specific interleaving, fault point, call sequence, unusual setting or two cooperating sites)",
        "breaks": "see notes.md (what the change does / what it needs in order to manifest)",
        "summary": title,
        "confirmed": {
            "how": "tools/evalmut.sh %s seeded/%s %s: scratch worktree of /repo HEAD with the patch applied; demo.py exits 1 with the patch and 0 without; the repository's pytest suite with the patch: %s; ./check %s --tier quick run against that worktree (VERIF_REPO, VERIF_SKIP_MC)" % (prop, name, name, m.group(6), prop),
            "demo_with_patch_exit": int(m.group(3)), "demo_without_patch_exit": int(m.group(4)),
        },
        "detected_by": ("./check %s --tier quick" % prop) if int(m.group(8)) else None,
        "violations_reported": int(m.group(8)), "check_exit": int(m.group(7)),
    }
    json.dump(meta, open(os.path.join(d, "meta.json"), "w"), indent=1)
    print("wrote", name)
