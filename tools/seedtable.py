#!/venv/bin/python
"""Rewrites the table of DESIGN.md section 11 from seeded/*/meta.json"""
import glob, json, os, re
ROOT = os.path.dirname(os.path.dirname(os.path.abspath(__file__)))
NOTES = {
 "C03-m12": "rejected but not attributed to C03 at first (it only hangs under a nested `shutdown_timeout=None` with a handler that never returns, which is outside the letter of C03's hypothesis) -> `late_shutdown_bounds` family; a hang outside the hypothesis is a symptom of C03 when TLC finds no stuck state of the specification on that very scenario",
 "C04-m11": "rejected but attributed to C14 only at first -> `windowed_critical_abort` family",
 "C04-m12": "rejected but attributed to C11 only at first -> `verdict-cancelled-without-cancellation`: CancelledError out of a run nobody cancelled",
 "C06-m11": "missed at first (two exception classes) -> job exceptions that are also InvalidStateError / KeyError / TimeoutError",
 "C06-m12": "NOT reported: needs a job that re-raises an exception object which has travelled through the suspended frame of another, still running job; no family shares exception objects between jobs",
 "C07-m12": "missed at first (window sizes were plain ints) -> `enumwin`: members of an IntEnum",
 "C09-m11": "rejected but attributed to C04 / C11 only at first -> `-leaving-forever-jobs` suffix of the failing clause",
 "C11-m12": "exit 2 at first (a handler cancelled twice logs `shut-recancel`, which the trace specification did not know) -> event bound; handlers that end by raising (`sraise`)",
 "C12-m12": "missed at first (the coroutine object of a run was always created when the tree was complete) -> `earlycoro`: created before the members are added / before the requirements are declared",
 "C19-m12": "thin at first (one program) -> `seq_then_edit` programs",
 "C20-m11": "missed at first (no tree had more than ten ids) -> trees of up to 14 nodes",
 "C01-m9": "rejected but not attributed to C01 at first (too few verbose runs with message-less exceptions in nested schedulers that have successors) -> verbose runs in the families of C01, C10, C12, C13",
 "C01-m10": "missed at first (every `Job` was given a coroutine object) -> `awtjobs`: `Job(<awaitable that is not a coroutine object>)`",
 "C03-m9": "rejected but attributed to C14 only at first (awaitable results were already settled) -> `awaitable=2`: results that are pending awaitables",
 "C05-m9": "missed at first (every job exception derived from Exception) -> `baseexc`",
 "C06-m10": "missed at first -> `baseexc`",
 "C08-m9": "rejected but attributed to C14 only at first -> the failing clause of a result mismatch says how the scheduler that gave the job up ended",
 "C09-m10": "thin at first -> an unfinished requirement that is a forever job is attributed to C09 too",
 "C10-m9": "thin at first (one metamorphic pair) -> `nested_failure_ties` family; `-by-nested` suffix of the failing clause when the critical failure came out of a critical nested scheduler",
 "C10-m10": "rejected but attributed to C11 only at first -> the early end of a cancelled nested run is attributed to C10 too (the nested scheduler is over for its parent before its own run is)",
 "C11-m9": "not reported at first (no body ended in CancelledError on its own) -> `selfc`: a new outcome of a body in the specification, the model families and the scenarios",
 "C13-m10": "exit 2 at first (the exception came out of the shutdown() issued before the run and crashed the recorder) -> a shutdown() that raises, hangs or takes time is a recorded event (`late-exc`)",
 "C15-m10": "rejected but attributed to C19 / C17 only at first -> an edit call that records something else than what was declared is attributed to C15 too (cycle detection is about the declared graph)",
 "C18-m9": "missed at first (milestones were always lists) -> `keep_only_between` given one-shot iterables",
 "C04-m9": "detected through the verdict at first; the behaviour it breaks is now modelled (`cout`: a clean-up that fails)",
 "C01-m7": "missed at first (no nested run was cancelled in the one-iteration gap between two waits) -> `between_waits` family: every offset of 0-5 loop iterations on both sides",
 "C03-m7": "rejected but not attributed to C03 at first (the run died on an internal error; it only hangs beside a never-ending forever job) -> `empty_stages` family",
 "C03-m8": "rejected but not attributed to C03 at first (cancellations arrive late; it only hangs when a clean-up waits for a sibling's cancellation) -> `cwait` in the specification, the model families and the harness; `cancel_cliques` family",
 "C04-m7": "rejected but not attributed to C04 at first (within one run the stale deadline only cuts the shutdown phase short) -> `preshut`: shutdown() issued before the run, in the specification, the model families and the scenarios; SymC04 clause 'timed out without a timeout'",
 "C08-m8": "rejected but attributed to C04 only at first -> a success claimed where the specification says timeout is attributed to C08 too",
 "C10-m7": "rejected but attributed to C08 only at first -> SymC10 clause: the timeout of a nested scheduler is measured from the beginning of its own run",
 "C10-m8": "missed at first (no two nested schedulers with the same window began in the same instant) -> `sibling_windows` family; the failing clause says when the job kept waiting belongs to a windowed nested scheduler",
 "C12-m7": "missed at first (nothing looked at a scheduler while it ran) -> `peek`: the read-only API used from job bodies and at every tick",
 "C12-m8": "missed at first (`None` was the only spelling of 'no limit') -> `zerowin`",
 "C13-m8": "missed at first (every cancelled handler re-raised) -> `sabsorb`: handlers that absorb their cancellation",
 "C14-m8": "rejected but attributed to C13/C11 only at first -> a cancellation swallowed by the shutdown phase is attributed to C14 too (the cancelled nested run ends as if finished and is reported done)",
 "C15-m7": "missed at first (jobs stayed in the scheduler that first scanned them) -> `scan` steps, `fam_rehome`: scanned jobs moved into a fresh scheduler",
 "C15-m8": "detected; the looping scan cost 8 minutes of watchdog time at first -> short leash once two histories have hung",
 "C16-m7": "missed at first (`sanitize()` was never verbose) -> verbose variants in every sanitize family",
 "C01-m1": "missed at first (predicate samples masked it; no scenario with a sibling finishing inside the nested run's wind-down) -> `snap` only in C14's family, `nested_gap` family",
 "C02-m1": "missed at first (first divergence attributed to C05/C04) -> trace-level symptoms (SymC02), `simultaneous_failures` family",
 "C03-m2": "missed at first (nothing queried the graph between building and running it) -> `prep` harness parameter",
 "C08-m2": "missed at first (needs the loop to be late, or a tie) -> `stall` events, `TimeoutG` strengthened, verdict-claim codes, SymC08",
 "C11-m2": "missed at first (handlers died instantly when cancelled) -> `scdur`, `HandlerCancelDone`",
 "C18-m1": "exit 2 at first (membership cycle made `iterate_jobs()` recurse for ever and the driver crashed) -> exception-safe queries",
 "C05-m2": "detected; after the stall rework the trace specification accepted a late `shut-cancel` and the outcome prediction flagged the disagreement -> clause tightened",
 "C04-m1": "detected; lost for a while when a longer failing-clause code made TLC wrap the verdict line -> single-string output",
 "C02-m4": "missed at first (the graph was never edited before a run) -> `prep=3`: an extra job spliced in, queried, bypassed and removed; an `alien` event if it ever runs",
 "C09-m3": "rejected but attributed elsewhere at first -> `-under-forever` failing-clause suffix, SymC09 clause",
 "C09-m4": "rejected but attributed elsewhere at first -> `-under-forever` failing-clause suffix",
 "C12-m4": "missed at first (needs a requirement swapped after the back-links were computed) -> `prep=4`",
 "C12-m3": "thin at first (3 traces) -> `window_ties` family",
 "C17-m3": "missed at first (queries were consumed in one go) -> `iterate_jobs()` consumed lazily while other scans run",
 "C15-m3": "missed at first (nothing was listed twice) -> trees listed and rendered with the opposite requirements first; C15's check got a listing leg",
 "C18-m4": "missed at first (every edit was followed by a query) -> query-less steps, `fam_double`",
 "C06-m4": "missed at first (every exception carried a message) -> `emptymsg`, more verbose runs",
 "C01-m4": "rejected but not attributed to C01 at first -> SymC01 looks inside required nested schedulers; middle-scheduler timeouts in `nested_gap`",
 "C08-m4": "rejected but attributed to C04 only at first -> diagnosis codes carry claimed and specified cause",
 "C16-m3": "thin at first (2 histories) -> `fam_sanitize_siblings`",
 "C20-m4": "thin at first (3 trees) -> trees with exactly ten ids",
 "C19-m4": "thin at first (4 programs) -> bare scheduler / sequence arguments, schedulers created empty",
 "C19-m5": "missed at first (`update()` was always given a list) -> tuples, sets and iterators too",
 "C20-m6": "missed at first (a tree was only rendered once in its final shape) -> rendered, then grown / listed per nested scheduler, then rendered again",
 "C02-m6": "hung the recorder at first (the library left the virtual loop for a real one) -> wall-clock watchdog in every driver; `RuntimeError`-flavoured job exceptions",
 "C05-m5": "thin and attributed to C11 only at first -> `nested_abort_ties` family, early end of a cancelled nested run attributed by the parent's cause",
 "C08-m5": "missed at first (no scheduler was ever given a `watch`) -> `watch` harness parameter",
 "C08-m6": "rejected but attributed to C13 only at first -> `shutdown-swallows-cancel` clause, attributed by the parent's cause",
 "C03-m5": "thin at first -> `failed_nested_successors` family",
 "C12-m5": "missed at first (settings were only passed to constructors) -> `lateattr`: settings assigned as attributes after construction",
 "C15-m5": "missed at first (the listing was judged only when the rendering was faithful) -> the listing leg of C15 is judged on its own",
 "C15-m6": "missed at first -> `topological_order()` consumed step by step while the query API is used",
 "C16-m5": "missed at first (every job was given its own requirement set) -> jobs of different schedulers handed one shared set object",
 "C17-m5": "rejected but attributed to C19 only at first -> edit calls that record something else than what was declared are attributed to C17 too",
 "C17-m6": "missed at first (queries were only judged on closed schedulers) -> neighbour, closure, entry / exit and traversal queries judged on unclosed schedulers too",
 "C18-m5": "thin at first -> empty nested schedulers as nodes of the surgery and query families",
 "C18-m6": "rejected but attributed to C17 only at first -> query, drop a requirement, cut: sequences with nothing in between (`fam_double`)",
 "C04-m6": "NOT reported: needs the same scheduler to be run twice, which the documentation rules out ('You can't run the same scheduler twice') and every family excludes",
 "C07-m5": "NOT reported: needs the same scheduler to be run twice (see C04-m6)",
 "C06-m5": "missed at first (flags were only passed to constructors) -> `lateattr` also assigns `critical` / `forever` after construction",
 "C10-m6": "missed at first (results were only sampled in C14's family) -> a `res` event in every family: `result()` / `raised_exception()` of every node once the run is over",
 "C14-m5": "missed at first (no body ever returned an awaitable) -> `awaitable` harness parameter",
 "C10-m5": "thin at first -> critical-and-forever combinations in `crit_chains`",
}
rows = ["| id | property | change | what the check of that property reports (quick tier) |", "|---|---|---|---|"]
for d in sorted(glob.glob(os.path.join(ROOT, "seeded", "*"))):
    m = json.load(open(os.path.join(d, "meta.json")))
    title = re.sub(r"^C\d\d\s*/\s*\S+(\s*\([^)]*\))?\s*[-—–]+\s*", "", m["summary"])
    title = re.sub(r"^m\d\s*[-—–]+\s*", "", title).replace("|", "/")
    note = NOTES.get(m["id"], "")
    rows.append("| %s | %s | %s | exit %s, %s VIOLATION lines%s |" % (m["id"], m["property"], title, m.get("check_exit"), m.get("violations_reported"), ("; " + note) if note else ""))
path = os.path.join(ROOT, "DESIGN.md")
s = open(path).read()
i = s.index("| id | property | change |")
j = s.index("\n\n", i)
s = s[:i] + "\n".join(rows) + s[j:]
open(path, "w").write(s)
print(len(rows) - 2, "rows")
