#!/venv/bin/python
"""usage: regress_meta.py <regress log>: records the outcome of tools/regress.sh in seeded/*/meta.json"""
import json, os, re, sys
ROOT = os.path.dirname(os.path.dirname(os.path.abspath(__file__)))
n = 0
for line in open(sys.argv[1]):
    m = re.match(r"RESULT (\S+) prop=(\S+) demo_with=(\d+) demo_without=(\d+) tests_rc=\d+ \[[^\]]*\] check_rc=(\d+) violations=(\d+)", line)
    if not m:
        continue
    name = m.group(1)
    path = os.path.join(ROOT, "seeded", name, "meta.json")
    if not os.path.exists(path):
        continue
    meta = json.load(open(path))
    meta["check_exit"] = int(m.group(5))
    meta["violations_reported"] = int(m.group(6))
    meta["confirmed"]["demo_with_patch_exit"] = int(m.group(3))
    meta["confirmed"]["demo_without_patch_exit"] = int(m.group(4))
    json.dump(meta, open(path, "w"), indent=1)
    n += 1
print(n, "updated")
