#!/bin/bash
# false-alarm sweep on the unchanged tree: every quick check under several seeds
# usage: tools/sweep.sh "2 3 4" [props...]
seeds=${1:-"2 3 4"}; shift
props=${@:-C01 C02 C03 C04 C05 C06 C07 C08 C09 C10 C11 C12 C13 C14 C15 C16 C17 C18 C19 C20}
for s in $seeds; do for p in $props; do
  out=$(VERIF_SEED=$s ./check $p --tier quick 2>&1); rc=$?
  echo "seed=$s $p rc=$rc :: $(echo "$out" | grep -E "VIOLATION|MACHINERY|note:" | head -3 | tr '\n' ' ') $(echo "$out" | tail -1 | cut -c1-160)"
done; done
