#!/bin/bash
# Runs every seeded change against the quick check of its property (4 at a time).
# usage: tools/regress.sh [filter-regex]
cd /verif
filter=${1:-.}
ls seeded | grep -E "$filter" | xargs -P 4 -I{} bash -c 'n={}; p=${n%%-*}; SKIPTESTS=1 tools/evalmut.sh $p /verif/seeded/$n $n | grep RESULT'
