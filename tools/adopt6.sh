#!/bin/bash
# usage: adopt6.sh <prop> <src _out dir> : copies m1,m2 of a sixth-round agent as m11,m12 into seeded/ and evaluates them
prop=$1; src=$2
for k in 1 2; do
  n=$prop-m$((k+10)); mkdir -p /verif/seeded/$n
  cp $src/m$k/patch.diff $src/m$k/demo.py $src/m$k/notes.md /verif/seeded/$n/
done
for k in 11 12; do /verif/tools/evalmut.sh $prop /verif/seeded/$prop-m$k $prop-m$k & done; wait
