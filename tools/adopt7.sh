#!/bin/bash
# usage: adopt7.sh <prop> <src _out dir> : copies m1,m2 of a seventh-round agent as m13,m14 into seeded/ and evaluates them
prop=$1; src=$2
for k in 1 2; do
  n=$prop-m$((k+12)); mkdir -p /verif/seeded/$n
  cp $src/m$k/patch.diff $src/m$k/demo.py $src/m$k/notes.md /verif/seeded/$n/
done
for k in 13 14; do /verif/tools/evalmut.sh $prop /verif/seeded/$prop-m$k $prop-m$k & done; wait
