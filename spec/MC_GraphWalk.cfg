SPECIFICATION WSpec
CONSTRAINT Report
INVARIANT Inv_Tree
INVARIANT Inv_Scan
PROPERTY P_Sanitize
PROPERTY P_Bypass
PROPERTY P_Keep
PROPERTY P_Readonly
CHECK_DEADLOCK FALSE
