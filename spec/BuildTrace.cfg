SPECIFICATION BSpec
CONSTRAINT Report
CHECK_DEADLOCK FALSE
