-------------------------- MODULE OrchestraSymptoms --------------------------
(***************************************************************************)
(* The runtime properties restated directly over a recorded event sequence *)
(* (the `observe_at` of each property): which of them does this trace, on  *)
(* its own, visibly break?                                                 *)
(*                                                                         *)
(* Used for ATTRIBUTION only, on traces the trace specification has        *)
(* already rejected: the frontier clause names the first divergence, these *)
(* predicates name what the rest of the run went on to break.  They are    *)
(* deliberately one-sided (a symptom present means the property is         *)
(* broken in this very trace; absence means nothing).                      *)
(***************************************************************************)
EXTENDS Integers, FiniteSets, Sequences, TLC

Idx(E)         == 1..Len(E)
NodesOf(C)     == 1..C.n
KidsOf(C, s)   == {k \in NodesOf(C) : C.parent[k] = s}
IsJobN(C, n)   == C.kind[n] = "job"
SchedsOf(C)    == {n \in NodesOf(C) : C.kind[n] = "sched"}
StartKinds     == {"start", "run-begin"}
MinOf(T)       == CHOOSE t \in T : \A u \in T : t <= u

Starts(E, n)   == {i \in Idx(E) : E[i].k \in StartKinds /\ E[i].n = n}
(* finished by returning or raising (not by cancellation) *)
Fins(E, n)     == {i \in Idx(E) : E[i].n = n /\ (E[i].k \in {"end", "raise", "run-end"} \/ (E[i].k = "run-exc" /\ E[i].v = "exc"))}
(* the body is over, whatever the way *)
Overs(E, n)    == Fins(E, n) \cup {i \in Idx(E) : E[i].n = n /\ (E[i].k \in {"cancel-done", "cancel-raise", "self-cancel"} \/ (E[i].k = "run-exc" /\ E[i].v = "cancelled"))}
Failed(E, n)   == {i \in Idx(E) : E[i].n = n /\ (E[i].k = "raise" \/ (E[i].k = "run-exc" /\ E[i].v = "exc"))}
StartPos(E, n) == IF Starts(E, n) = {} THEN 0 ELSE MinOf(Starts(E, n))
FinPos(E, n)   == IF Fins(E, n) = {} THEN 0 ELSE MinOf(Fins(E, n))
OverPos(E, n)  == IF Overs(E, n) = {} THEN 0 ELSE MinOf(Overs(E, n))
HasStall(E)    == \E i \in Idx(E) : E[i].k = "stall"
TopPos(E)      == IF \E i \in Idx(E) : E[i].k = "top" THEN MinOf({i \in Idx(E) : E[i].k = "top"}) ELSE 0
RunEnds(E, s)  == {i \in Idx(E) : E[i].n = s /\ E[i].k \in {"run-end", "run-exc"}}
DiagsAt(E, s)   == {i \in Idx(E) : E[i].n = s /\ E[i].k = "diag"}

RECURSIVE DescOf(_, _)
DescOf(C, s) == UNION {{k} \cup DescOf(C, k) : k \in KidsOf(C, s)}
SymC01(C, E) ==
  \E j \in NodesOf(C) \ {1} : StartPos(E, j) > 0 /\
     \/ \E r \in C.req[j] : FinPos(E, r) = 0 \/ FinPos(E, r) > StartPos(E, j)
     \/ StartPos(E, C.parent[j]) = 0 \/ StartPos(E, C.parent[j]) > StartPos(E, j)
     \* a required nested scheduler is over only when its whole run is: nothing inside still executing
     \/ \E r \in C.req[j] : \E d \in DescOf(C, r) :
           StartPos(E, d) > 0 /\ StartPos(E, d) < StartPos(E, j) /\ (OverPos(E, d) = 0 \/ OverPos(E, d) > StartPos(E, j))

SymC02(C, E) ==
  \/ \E j \in NodesOf(C) : Cardinality(Starts(E, j)) > 1
  \/ \E s \in SchedsOf(C) : \E p \in RunEnds(E, s) : \E k \in KidsOf(C, s) :
        /\ E[p].k = "run-end" /\ E[p].v = "true" /\ ~C.forever[k]
        /\ \/ FinPos(E, k) = 0
           \/ FinPos(E, k) > p
           \* "returned, or raised while non-critical"
           \/ C.crit[k] /\ \E f \in Failed(E, k) : f < p /\ E[f].t < E[p].t

SymC03(C, E) == \E i \in Idx(E) : E[i].k = "top" /\ E[i].v \in {"deadlock", "livelock"}

(* success conditions of s held at position p: every non-forever job done,   *)
(* strictly before the deadline, and no critical job failed                 *)
Earned(C, E, s, p) ==
  /\ KidsOf(C, s) # {}
  /\ \E k \in KidsOf(C, s) : ~C.forever[k]
  /\ \A k \in KidsOf(C, s) : ~C.forever[k] => (FinPos(E, k) > 0 /\ FinPos(E, k) < p)
  /\ \A k \in KidsOf(C, s) : C.crit[k] => (Failed(E, k) = {} \/ MinOf(Failed(E, k)) > p)
  /\ C.tmo[s] >= 0 => \A k \in KidsOf(C, s) : ~C.forever[k] =>
                         E[FinPos(E, k)].t < E[StartPos(E, s)].t + C.tmo[s]
RaisingS(C, s) == C.crit[s] /\ ~(s = 1 /\ C.pure)
(* success is claimed although a non-forever job was not over when the deadline passed *)
MissedDeadline(C, E, s, p) ==
  /\ E[p].k = "run-end" /\ E[p].v = "true" /\ C.tmo[s] >= 0 /\ StartPos(E, s) > 0 /\ ~HasStall(E)
  /\ \E k \in KidsOf(C, s) : ~C.forever[k] /\
        (OverPos(E, k) = 0 \/ E[OverPos(E, k)].t > E[StartPos(E, s)].t + C.tmo[s])
SymC04(C, E) ==
  \E s \in SchedsOf(C) : \E p \in RunEnds(E, s) :
     \/ MissedDeadline(C, E, s, p)
     \/ /\ E[p].k = "run-end" /\ E[p].v = "true"
        /\ \E k \in KidsOf(C, s) : C.crit[k] /\ \E f \in Failed(E, k) : E[f].t < E[p].t
     \/ ((E[p].k = "run-end" /\ E[p].v = "false") \/ (E[p].k = "run-exc" /\ E[p].v = "exc")) /\ Earned(C, E, s, p)
     \/ E[p].k = "run-end" /\ E[p].v = "false" /\ RaisingS(C, s)
     \/ E[p].k = "run-exc" /\ E[p].v = "exc" /\ ~RaisingS(C, s)
     \/ E[p].k = "run-exc" /\ E[p].v = "other"
     \/ E[p].k = "run-end" /\ E[p].v = "other"
     \/ \E d \in DiagsAt(E, s) :
           \/ E[p].k = "run-end" /\ E[p].v = "true" /\ E[d].v # "fine"
           \/ E[p].k = "run-end" /\ E[p].v = "false" /\ E[d].v = "fine"
           \/ E[p].k = "run-exc" /\ E[p].v = "exc" /\ E[d].v = "fine"
           \/ E[p].k = "run-exc" /\ E[p].v = "exc" /\ E[p].i = 0 - s /\ E[d].v # "timeout"
           \/ E[d].v = "other"
           \/ E[d].v = "timeout" /\ E[d].i # 5
           \* a scheduler without a timeout cannot have timed out; a critical failure needs one
           \/ E[d].v = "timeout" /\ C.tmo[s] < 0
           \/ E[d].v = "critical" /\ ~\E k \in KidsOf(C, s) : C.crit[k] /\ Failed(E, k) # {}
           \/ E[d].v = "critical" /\ E[d].i # 6
SymC10(C, E) ==
  \/ \E s \in SchedsOf(C) \ {1} : \E p \in RunEnds(E, s) :
        \/ MissedDeadline(C, E, s, p)
        \/ ((E[p].k = "run-end" /\ E[p].v = "false") \/ (E[p].k = "run-exc" /\ E[p].v = "exc")) /\ Earned(C, E, s, p)
        \/ E[p].k = "run-end" /\ E[p].v = "false" /\ C.crit[s]
        \/ E[p].k = "run-exc" /\ E[p].v = "exc" /\ ~C.crit[s]
        \/ E[p].k = "run-exc" /\ E[p].v = "other"
        \* a job of a nested scheduler active outside the nested run
        \/ \E k \in KidsOf(C, s) : \E i \in Idx(E) : i > p /\ E[i].n = k /\ E[i].k \in {"start", "run-begin", "end", "raise"}
  \* the timeout of a nested scheduler is measured from the beginning of its own run
  \/ \E s \in SchedsOf(C) \ {1} : C.tmo[s] >= 0 /\ StartPos(E, s) > 0 /\
        \E d \in DiagsAt(E, s) : E[d].v = "timeout" /\ E[d].t < E[StartPos(E, s)].t + C.tmo[s]
  \* a successor of a nested scheduler started before that nested run was over
  \/ \E j \in NodesOf(C) \ {1} : \E r \in C.req[j] : ~IsJobN(C, r) /\ StartPos(E, j) > 0
                                  /\ (OverPos(E, r) = 0 \/ OverPos(E, r) > StartPos(E, j))

(* first critical failure among the children of s                          *)
CritFails(C, E, s) == UNION {Failed(E, k) : k \in {x \in KidsOf(C, s) : C.crit[x]}}
SymC05(C, E) ==
  \E s \in SchedsOf(C) : CritFails(C, E, s) # {} /\
     LET f == MinOf(CritFails(C, E, s)) IN
       \/ \E k \in KidsOf(C, s) : \E i \in Starts(E, k) : E[i].t > E[f].t
       \/ \E k \in KidsOf(C, s) : IsJobN(C, k) /\ \E i \in Fins(E, k) : E[i].t > E[f].t /\ ~HasStall(E)
       \/ \E p \in RunEnds(E, s) : E[p].k = "run-end" /\ E[p].v = "true" /\ E[f].t < E[p].t

(* number of bodies of children of s executing just after event p          *)
Running(C, E, s, p) ==
  Cardinality({i \in 1..p : E[i].k \in StartKinds /\ E[i].n \in KidsOf(C, s)})
  - Cardinality({i \in 1..p : E[i].n \in KidsOf(C, s) /\
                               (E[i].k \in {"end", "raise", "cancel-done", "run-end", "run-exc"})})
SymC07(C, E) == \E s \in SchedsOf(C) : C.win[s] > 0 /\ \E p \in Idx(E) : Running(C, E, s, p) > C.win[s]

SymC08(C, E) ==
  \/ \E s \in SchedsOf(C) : \E p \in RunEnds(E, s) : MissedDeadline(C, E, s, p)
  \/ \E s \in SchedsOf(C) : C.tmo[s] >= 0 /\ StartPos(E, s) > 0 /\
     LET dl == E[StartPos(E, s)].t + C.tmo[s] IN
       \/ \E k \in KidsOf(C, s) : \E i \in Starts(E, k) : E[i].t > dl /\ ~HasStall(E)
       \/ \E k \in KidsOf(C, s) : IsJobN(C, k) /\ \E i \in Fins(E, k) : E[i].t > dl /\ ~HasStall(E)
       \/ \E d \in DiagsAt(E, s) : E[d].v = "timeout" /\ Earned(C, E, s, d)
       \/ \E p \in RunEnds(E, s) : E[p].k = "run-exc" /\ E[p].i = 0 - s /\ Earned(C, E, s, p)
       \/ \E d \in DiagsAt(E, s) : E[d].v = "timeout" /\ E[d].t < dl
  \/ \E s2 \in SchedsOf(C) : C.tmo[s2] < 0 /\ \E d \in DiagsAt(E, s2) : E[d].v = "timeout"

SymC09(C, E) ==
  \* a forever job is cancelled (or the run declared over) while a regular job of the same
  \* scheduler has still to run: the run did not last until its last non-forever job
  \/ \E s9 \in SchedsOf(C) : \E f \in KidsOf(C, s9) : \E k \in KidsOf(C, s9) :
        /\ C.forever[f] /\ ~C.forever[k] /\ IsJobN(C, f)
        /\ \E i \in Idx(E) : E[i].n = f /\ E[i].k = "cancel" /\ (FinPos(E, k) = 0 \/ FinPos(E, k) > i)
        /\ \E p9 \in RunEnds(E, s9) : E[p9].k = "run-end" /\ E[p9].v = "true"
  \/ \E s \in SchedsOf(C) : \E p \in RunEnds(E, s) : E[p].k = "run-end" /\ E[p].v = "true" /\
     \/ \E k \in KidsOf(C, s) : C.forever[k] /\ \E i \in Idx(E) : i > p /\ E[i].n = k /\ E[i].k \in {"start", "run-begin", "end", "raise"}
     \/ LET nf == {k \in KidsOf(C, s) : ~C.forever[k]} IN
          nf # {} /\ (\A k \in nf : FinPos(E, k) > 0) /\ ~HasStall(E) /\
          LET last == CHOOSE t \in {E[FinPos(E, k)].t : k \in nf} : \A k \in nf : E[FinPos(E, k)].t <= t IN
            \/ \E k \in KidsOf(C, s) : \E i \in Starts(E, k) : E[i].t > last
            \/ \E k \in KidsOf(C, s) : C.forever[k] /\ IsJobN(C, k) /\ \E i \in Fins(E, k) : E[i].t > last

SymC11(C, E) ==
  \/ TopPos(E) > 0 /\ \E i \in Idx(E) : i > TopPos(E) /\ ~(E[i].k \in {"sshut", "sshut-ret", "leftover"} /\ E[i].n = 1)
  \/ \E i \in Idx(E) : E[i].k = "leftover" /\ E[i].i > 0
  \/ \E s \in SchedsOf(C) : \E p \in RunEnds(E, s) : \E k \in KidsOf(C, s) :
        \/ StartPos(E, k) > 0 /\ StartPos(E, k) < p /\ (OverPos(E, k) = 0 \/ OverPos(E, k) > p)
        \/ \E i \in Idx(E) : i > p /\ E[i].n = k /\ E[i].k \in {"start", "run-begin", "end", "raise", "cancel", "cancel-done"}

SymC12(C, E) ==
  ~HasStall(E) /\
  \E j \in NodesOf(C) \ {1} : StartPos(E, j) > 0 /\ C.win[C.parent[j]] = 0 /\ StartPos(E, C.parent[j]) > 0 /\
     (\A r \in C.req[j] : FinPos(E, r) > 0) /\
     LET due == {E[FinPos(E, r)].t : r \in C.req[j]} \cup {E[StartPos(E, C.parent[j])].t}
     IN E[StartPos(E, j)].t > (CHOOSE t \in due : \A u \in due : u <= t)

Shuts(E, n) == {i \in Idx(E) : E[i].n = n /\ E[i].k = "shut"}
SymC13(C, E) ==
  \/ \E j \in NodesOf(C) : IsJobN(C, j) /\ Cardinality(Shuts(E, j)) > 1
  \/ ~C.preshut /\ \E i \in Idx(E) : E[i].k = "top" /\ E[i].v \in {"true", "false", "exc"} /\
        \E j \in NodesOf(C) : IsJobN(C, j) /\ Shuts(E, j) = {}
  \* shut down before the run: no job hears of it a second time
  \/ C.preshut /\ \E j \in NodesOf(C) : Shuts(E, j) # {}
  \/ \E j \in NodesOf(C) : IsJobN(C, j) /\ \E i \in Shuts(E, j) :
        \E b \in KidsOf(C, C.parent[j]) : StartPos(E, b) > 0 /\ StartPos(E, b) < i /\ (OverPos(E, b) = 0 \/ OverPos(E, b) > i)
  \/ \E i \in Idx(E) : E[i].k = "sshut-ret" /\ E[i].n = 1 /\ TopPos(E) > 0 /\ i > TopPos(E) /\ E[i].v # "null"

(* C14: across the predicate samples of one run, nothing ever reverts         *)
Snaps(E)  == {i \in Idx(E) : E[i].k = "snap"}
Bit(x, k) == (x \div k) % 2 = 1
SymC14(C, E) ==
  \* a body that returned or raised is reported done at every later sample, with its
  \* own result / exception
  \/ \E n \in NodesOf(C) \ {1} : IsJobN(C, n) /\ \E f \in Fins(E, n) : \E j \in Snaps(E) :
        j > f /\ (~Bit(E[j].sn[n - 1][1], 8)
                  \/ (E[f].k = "end" /\ E[j].sn[n - 1][2] # "ret")
                  \/ (E[f].k = "raise" /\ E[j].sn[n - 1][3] # n))
  \* a body that was cancelled, or never entered, is never reported done
  \/ \E n \in NodesOf(C) \ {1} : IsJobN(C, n) /\ Fins(E, n) = {} /\ C.cout[n] # "exc" /\ \E j \in Snaps(E) : Bit(E[j].sn[n - 1][1], 8)
  \/ \E i \in Snaps(E) : \E j \in Snaps(E) : i < j /\ \E n \in 1..Len(E[i].sn) :
     LET a == E[i].sn[n]  b == E[j].sn[n] IN
       \/ Bit(a[1], 8) /\ ~Bit(b[1], 8)              \* is_done reverted
       \/ Bit(a[1], 4) /\ ~Bit(b[1], 4)              \* is_running reverted
       \/ Bit(a[1], 2) /\ ~Bit(b[1], 2)              \* is_scheduled reverted
       \/ ~Bit(a[1], 1) /\ Bit(b[1], 1)              \* idle again
       \/ Bit(a[1], 8) /\ (a[2] # b[2] \/ a[3] # b[3])   \* result / exception of a done job changed

Symptoms(C, E) ==
     (IF SymC01(C, E) THEN {"C01"} ELSE {}) \cup (IF SymC02(C, E) THEN {"C02"} ELSE {})
  \cup (IF SymC03(C, E) THEN {"C03"} ELSE {}) \cup (IF SymC04(C, E) THEN {"C04"} ELSE {})
  \cup (IF SymC05(C, E) THEN {"C05"} ELSE {}) \cup (IF SymC07(C, E) THEN {"C07"} ELSE {})
  \cup (IF SymC08(C, E) THEN {"C08"} ELSE {}) \cup (IF SymC09(C, E) THEN {"C09"} ELSE {})
  \cup (IF SymC10(C, E) THEN {"C10"} ELSE {}) \cup (IF SymC11(C, E) THEN {"C11"} ELSE {})
  \cup (IF SymC12(C, E) THEN {"C12"} ELSE {}) \cup (IF SymC13(C, E) THEN {"C13"} ELSE {})
  \cup (IF SymC14(C, E) THEN {"C14"} ELSE {})
=============================================================================
