----------------------------- MODULE BuildTrace -----------------------------
(***************************************************************************)
(* Validates construction programs executed on the real classes            *)
(* (harness/builddrv.py) against Build.tla: after every statement the      *)
(* recorded exception and the full projected state (requirements, members, *)
(* sequence contents) must be the specification's.                         *)
(***************************************************************************)
EXTENDS Build, Json, IOUtils, TLCExt

Progs == JsonDeserialize(IOEnv.TRACE_FILE)

VARIABLES pid, k, B
bvars == <<pid, k, B>>

P  == Progs[pid]
KK == P.kind
N  == Len(KK)
NS == Len(P.steps)
St == P.steps[k + 1]

StateOf(J) == [req |-> [i \in 1..N |-> SetOf(J.req[i])], mem |-> [i \in 1..N |-> SetOf(J.mem[i])],
               seq |-> [i \in 1..N |-> J.seq[i]]]

BInit == pid \in 1..Len(Progs) /\ k = 0 /\ B = InitB(Len(Progs[pid].kind))

StepWhy(X, st) ==
  LET e == Effect(KK, X, st)
      post == StateOf(st.post)
      x == st.id
  IN IF st.exc # e[1] THEN "exception"
     ELSE IF ~e[3] THEN
          (IF /\ post.mem = e[2].mem /\ post.seq = e[2].seq
              /\ \A y \in 1..N : y # x => post.req[y] = X.req[y]
              /\ post.req[x] \subseteq X.req[x]
              /\ (X.req[x] \ SetOf(TargetListAll(KK, X, st.args))) \subseteq post.req[x]
           THEN "" ELSE "partial-removal")
     ELSE IF post.req # e[2].req THEN "requirements"
     ELSE IF post.mem # e[2].mem THEN "members"
     ELSE IF post.seq # e[2].seq THEN "sequence-contents"
     ELSE IF ~WellBuilt(KK, e[2]) THEN "self-requirement"
     ELSE ""

Apply(X, st) ==
  LET e == Effect(KK, X, st) post == StateOf(st.post) IN
  [e[2] EXCEPT !.req = post.req]

BNext == /\ k < NS
         /\ StepWhy(B, St) = ""
         /\ B' = Apply(B, St)
         /\ k' = k + 1
         /\ UNCHANGED pid
BSpec == BInit /\ [][BNext]_bvars

Report == IF k = NS THEN PrintT(<<"ACC", pid>>)
          ELSE IF StepWhy(B, St) # "" THEN PrintT("AT|" \o ToString(pid) \o "|" \o ToString(k + 1) \o "|" \o St.op \o "|" \o StepWhy(B, St))
          ELSE TRUE
=============================================================================
