SPECIFICATION MCSpec
CONSTRAINT SimReport
INVARIANT Inv_C01
INVARIANT Inv_C02
INVARIANT Inv_C04
INVARIANT Inv_C05
INVARIANT Inv_C07
INVARIANT Inv_C08
INVARIANT Inv_C09
INVARIANT Inv_C10
INVARIANT Inv_C11
INVARIANT Inv_C12
INVARIANT Inv_C13
INVARIANT Inv_C14
CHECK_DEADLOCK FALSE
