SPECIFICATION DSpec
CONSTRAINT Report
CHECK_DEADLOCK FALSE
