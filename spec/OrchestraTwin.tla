---------------------------- MODULE OrchestraTwin ----------------------------
(***************************************************************************)
(* C06 as a lock-step bisimulation.  Two copies of the run state whose     *)
(* configurations are identical; the environment makes one designated      *)
(* non-critical job `flip` return in the first copy and raise in the       *)
(* second.  Both copies take the same action with the same parameters at   *)
(* every step.  Invariants: the same actions are enabled in both copies,   *)
(* and the two states are equal except for the state and result of `flip`. *)
(* In other words: whether a non-critical job returns or raises is         *)
(* invisible to every guard and every effect of the specification.         *)
(***************************************************************************)
EXTENDS OrchestraProps, Json, IOUtils, TLCExt

Fam == JsonDeserialize(IOEnv.FAMILY_FILE)

VARIABLES flip, B
\* the first copy lives in Orchestra's own variables
C == cfg
A == S
twars == <<cfg, S, flip, B>>

TwInit ==
  \E i \in 1..Len(Fam) :
    /\ cfg = CfgOf(Fam[i])
    /\ flip \in {j \in Jobs(C) : ~C.crit[j]}
    /\ S = InitS(cfg) /\ B = InitS(cfg)

(* the action taken by the second copy: the same, except flip's outcome    *)
Mirror(a) == IF a[1] = "JobEnd" /\ a[2] = flip THEN <<a[1], a[2], a[3], "exc", a[5]>> ELSE a
Mine(a)   == a[1] = "JobEnd" /\ a[2] = flip => a[4] = "ok"

TwNext ==
  /\ UNCHANGED <<cfg, flip>>
  /\ \E a \in Acts(C, A) : /\ ActOK(C, a) /\ Mine(a)
                           /\ S' = Apply(C, A, a)
                           /\ B' = Apply(C, B, Mirror(a))
TwSpec == TwInit /\ [][TwNext]_twars

(* same enabled actions (outcomes of JobEnd are chosen by the environment) *)
SameGuards == Acts(C, A) = Acts(C, B)

Mask(X) == [X EXCEPT !.st[flip] = IF Fin(X, flip) THEN "fin" ELSE @,
                     !.res[flip] = IF Fin(X, flip) THEN <<"fin", 0>> ELSE @]
SameState == Mask(A) = Mask(B)

(* ... and the exception stays retrievable from the job                    *)
Retrievable == (B.st[flip] = "exc" => B.res[flip] = <<"exc", flip>>)
               /\ (A.st[flip] = "ok" => A.res[flip] = <<"ret", flip>>)
=============================================================================
