SPECIFICATION TwSpec
INVARIANT SameGuards
INVARIANT SameState
INVARIANT Retrievable
CHECK_DEADLOCK FALSE
