SPECIFICATION FairSpec
PROPERTY Live_C03
INVARIANT Inv_C03
CHECK_DEADLOCK FALSE
