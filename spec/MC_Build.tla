------------------------------ MODULE MC_Build ------------------------------
(***************************************************************************)
(* Programs generated from the specification (spec -> code for C19).       *)
(* In simulation mode (tlc -simulate) TLC builds construction programs one *)
(* statement at a time from the statements Build.tla gives a meaning to,   *)
(* over a fixed universe of objects, checks the design invariants on the   *)
(* way, and prints each finished program; the driver replays the programs  *)
(* into the real classes and BuildTrace validates every statement.         *)
(***************************************************************************)
EXTENDS Build, Json, TLCExt, Randomization

KK == <<"job", "job", "job", "job", "seq", "seq", "sched", "pure">>
N  == Len(KK)
Depth == 9

VARIABLES B, prog
bvars == <<B, prog>>

None     == [t |-> "none"]
Obj(i)   == [t |-> "obj", id |-> i]
Coll(k, items) == [t |-> k, items |-> items]

Made(kinds) == {i \in B.made : KK[i] \in kinds}
Unmade(kinds) == {i \in (1..N) \ B.made : KK[i] \in kinds}
Leaves == {None} \cup {Obj(i) : i \in Made({"job", "sched", "seq"})}
Pairs  == {<<a, b>> : a \in RandomSubset(3, Leaves), b \in RandomSubset(3, Leaves)}
Trees  == Leaves \cup {Coll(k, p) : k \in {"list", "tuple"}, p \in Pairs}
                 \cup {Coll("list", <<Coll("tuple", p), l>>) : p \in RandomSubset(2, Pairs), l \in RandomSubset(2, Leaves)}
                 \cup {Coll("set", <<l>>) : l \in RandomSubset(2, Leaves)}
FlatArgs == {<<>>} \cup {<<l>> : l \in Leaves} \cup Pairs
                   \cup {<<p[1], Coll("list", <<p[2]>>), p[2]>> : p \in RandomSubset(2, Pairs)}
Scheds0 == {0} \cup Made({"sched", "pure"})

Stmt(op, id, args, req, sched, flag, x) ==
  [op |-> op, id |-> id, args |-> args, req |-> req, sched |-> sched, flag |-> flag, x |-> x]

Menu ==
       {Stmt("newjob", i, <<>>, r, s, f, 0) : i \in RandomSubset(1, Unmade({"job"})), r \in RandomSubset(4, Trees),
                                               s \in Scheds0, f \in BOOLEAN}
  \cup {Stmt("newseq", q, a, r, s, FALSE, 0) : q \in RandomSubset(1, Unmade({"seq"})), a \in RandomSubset(4, FlatArgs),
                                                r \in RandomSubset(3, Trees), s \in Scheds0}
  \cup {Stmt("newsched", p, a, r, s, FALSE, 0) : p \in RandomSubset(1, Unmade({"sched", "pure"})), a \in RandomSubset(3, FlatArgs),
                                                  r \in RandomSubset(3, Trees), s \in Scheds0}
  \cup {Stmt("append", q, a, None, 0, FALSE, 0) : q \in Made({"seq"}), a \in RandomSubset(4, FlatArgs)}
  \cup {Stmt("requires", j, <<r>>, None, 0, f, 0) : j \in Made({"job", "sched"}), r \in RandomSubset(4, Trees), f \in BOOLEAN}
  \cup {Stmt("requires", j, <<r1, r2>>, None, 0, FALSE, 0) : j \in RandomSubset(2, Made({"job", "sched"})),
                                                              r1 \in RandomSubset(2, Trees), r2 \in RandomSubset(2, Trees)}
  \cup {Stmt("seqrequires", q, <<r>>, None, 0, FALSE, 0) : q \in Made({"seq"}), r \in RandomSubset(3, Trees)}
  \cup {Stmt("add", p, <<l>>, None, 0, FALSE, 0) : p \in Made({"sched", "pure"}), l \in RandomSubset(3, Leaves)}
  \cup {Stmt("update", p, a, None, 0, FALSE, x) : p \in Made({"sched", "pure"}), a \in RandomSubset(3, FlatArgs), x \in 0..3}
  \cup {Stmt("remove", p, <<>>, None, 0, FALSE, x) : p \in Made({"sched", "pure"}), x \in RandomSubset(2, Made({"job", "sched"}))}

(* a PureScheduler takes neither required= nor scheduler=; a scheduler is   *)
(* never made a member of itself                                            *)
Sane(st) ==
  /\ st.op = "newsched" /\ KK[st.id] = "pure" => st.req = None /\ st.sched = 0
  /\ st.op = "newsched" => st.sched # st.id
  /\ st.op \in {"add", "update"} => \A i \in 1..Len(st.args) : st.args[i] # Obj(st.id)

MBInit == B = InitB(N) /\ prog = <<>>
MBNext == /\ Len(prog) < Depth
          /\ \E st \in Menu : /\ Sane(st)
                              /\ LET e == Effect(KK, B, st) IN
                                   /\ e[3]                    \* the outcome is fully determined
                                   /\ B' = e[2]
                                   /\ prog' = Append(prog, st)
MBSpec == MBInit /\ [][MBNext]_bvars

Inv_WellBuilt == WellBuilt(KK, B)
(* a sequence lists distinct positions of jobs that exist; membership sets   *)
(* hold job-like objects only                                               *)
Inv_Shapes == /\ \A q \in B.made : IsSeq(KK, q) => \A i \in 1..Len(B.seq[q]) : JobLike(KK, B.seq[q][i])
              /\ \A p \in B.made : \A m \in B.mem[p] : JobLike(KK, m)
              /\ \A j \in B.made : \A r \in B.req[j] : JobLike(KK, r)

Report == IF Len(prog) = Depth THEN PrintT("PROG|" \o ToJson(prog)) ELSE TRUE
=============================================================================
