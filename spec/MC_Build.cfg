SPECIFICATION MBSpec
CONSTRAINT Report
INVARIANT Inv_WellBuilt
INVARIANT Inv_Shapes
CHECK_DEADLOCK FALSE
