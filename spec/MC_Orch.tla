------------------------------ MODULE MC_Orch ------------------------------
(***************************************************************************)
(* Exhaustive checking of Orchestra over a family of configurations read   *)
(* from FAMILY_FILE (a JSON array produced by harness/families.py).  One   *)
(* initial state per configuration; every listed runtime property is an    *)
(* invariant or an action property.                                        *)
(***************************************************************************)
EXTENDS OrchestraProps, Json, IOUtils, TLCExt

Fam == JsonDeserialize(IOEnv.FAMILY_FILE)

MCInit == \E i \in 1..Len(Fam) : cfg = CfgOf(Fam[i]) /\ S = InitS(cfg)
MCSpec == MCInit /\ [][Next]_vars
FairSpec == MCSpec /\ WF_vars(Next)

TypeOK ==
  /\ S.st \in [Nodes(cfg) -> {"idle", "queued", "running", "cancelling", "ok", "exc", "cancelled", "selfc"}]
  /\ S.xs \in {"none", "running", "done"}
  /\ \A n \in Nodes(cfg) : S.st[n] = "selfc" => IsJob(cfg, n) /\ cfg.out[n] = "selfc"
  /\ S.sh \in [Nodes(cfg) -> {"none", "running", "creq", "cing", "done", "cancelled"}]
  /\ S.proc \subseteq Nodes(cfg)
  /\ \A s \in Scheds(cfg) : S.pc[s] \in {"idle", "main", "tidy", "shut", "over"}
  /\ \A j \in Jobs(cfg) : ~S.creq[j] /\ ~S.relayed[j]

Inv_C01 == C01(cfg, S)
Inv_C02 == C02(cfg, S)
Inv_C03 == Admissible(cfg) => C03(cfg, S)
Inv_C04 == C04(cfg, S)
Inv_C05 == C05(cfg, S)
Inv_C07 == C07(cfg, S)
Inv_C08 == C08(cfg, S)
Inv_C09 == C09(cfg, S)
Inv_C10 == C10(cfg, S)
Inv_C11 == C11(cfg, S)
Inv_C12 == C12(cfg, S) /\ C12Tick(cfg, S)
Inv_C13 == C13(cfg, S)
Inv_C14 == C14(cfg, S)
Step_C14 == [][C14Step(cfg, S, S')]_vars
Live_C03 == Admissible(cfg) => <>Terminated(cfg, S)

(* simulation mode (tlc -simulate): every terminated behaviour prints the   *)
(* configuration it ran and what happened to each node, from which the      *)
(* driver scripts a concrete scenario (durations, outcomes) and replays it  *)
(* into the real code                                                       *)
RECURSIVE SeqOfSet(_)
SeqOfSet(T) == IF T = {} THEN <<>> ELSE LET x == Min(T) IN <<x>> \o SeqOfSet(T \ {x})
SimReport ==
  IF Terminated(cfg, S)
  THEN PrintT("SIM|" \o ToJson([c |-> [n |-> cfg.n, pure |-> cfg.pure, kind |-> cfg.kind, parent |-> cfg.parent,
                                       req |-> [i \in 1..cfg.n |-> SeqOfSet(cfg.req[i])], crit |-> cfg.crit,
                                       forever |-> cfg.forever, win |-> cfg.win, tmo |-> cfg.tmo, stmo |-> cfg.stmo,
                                       dur |-> cfg.dur, sdur |-> cfg.sdur, cdur |-> cfg.cdur, scdur |-> cfg.scdur, ucancel |-> cfg.ucancel,
                                       cwait |-> cfg.cwait, preshut |-> cfg.preshut, xshut |-> cfg.xshut, cout |-> cfg.cout],
                                 t0 |-> S.t0, te |-> S.te, tc |-> S.tc, st |-> S.st, nstart |-> S.nstart]))
  ELSE TRUE

=============================================================================
