--------------------------- MODULE OrchestraProps ---------------------------
(***************************************************************************)
(* The listed runtime properties C01 .. C14 as predicates of a             *)
(* configuration C and a state record X (so that they can be evaluated on  *)
(* the states of Orchestra, of the trace specification and of the twin),   *)
(* plus the admissibility hypothesis of C03.                               *)
(***************************************************************************)
EXTENDS Orchestra

RECURSIVE Desc(_, _)
Desc(C, s) == UNION {{k} \cup (IF IsSched(C, k) THEN Desc(C, k) ELSE {}) : k \in Kids(C, s)}

RECURSIVE UpClose(_, _)
UpClose(C, R) == LET R2 == R \cup UNION {C.req[r] : r \in R}
                 IN IF R2 = R THEN R ELSE UpClose(C, R2)
(* requirements of n, transitively *)
UpReq(C, n) == UpClose(C, C.req[n])

Over(X, s)    == X.pc[s] = "over"
Started(X, n) == X.st[n] \notin {"idle", "queued"}
Aborted(X, s) == X.pc[s] \in {"tidy", "shut", "over"}
Deadline(C, X, s) == X.t0[s] + C.tmo[s]
NonForever(C, s)  == {k \in Kids(C, s) : ~C.forever[k]}

-----------------------------------------------------------------------------
(* C01  no start before every requirement has finished                     *)
C01(C, X) ==
  \A j \in Nodes(C) \ {Root} :
     X.st[j] # "idle" =>
        /\ \A r \in C.req[j] : Fin(X, r) /\ X.te[r] <= X.now
        /\ Started(X, C.parent[j]) /\ X.nstart[C.parent[j]] >= 1
        /\ (X.nstart[j] > 0 => \A r \in C.req[j] : X.te[r] <= X.t0[j])
        /\ (X.nstart[j] > 0 => X.t0[C.parent[j]] <= X.t0[j])

(* C02  exactly once; success => every non-forever job ran to its end      *)
C02(C, X) ==
  /\ \A j \in Nodes(C) : X.nstart[j] <= 1
  /\ \A s \in Scheds(C) :
        (X.cause[s] = "success" \/ X.res[s] = <<"true", 0>>) =>
           \A k \in NonForever(C, s) :
              Gone(X, k) /\ X.nstart[k] = 1 /\ X.te[k] <= X.ta[s]

(* C03  progress: no reachable state is stuck (admissible configurations)  *)
C03(C, X) == ~Stuck(C, X)

(* C04  verdict and diagnosis                                              *)
C04(C, X) ==
  \A s \in Scheds(C) :
    (Over(X, s) /\ X.cause[s] # "cancelled") =>
      /\ X.cause[s] \in {"success", "timeout", "critical"}
      /\ (X.res[s] = <<"true", 0>>) <=> (X.cause[s] = "success")
      /\ X.cause[s] = "success" =>
            /\ \A k \in NonForever(C, s) : Gone(X, k)
            /\ C.tmo[s] >= 0 /\ Kids(C, s) # {} => X.ta[s] <= Deadline(C, X, s)
            /\ \A k \in Kids(C, s) : (C.crit[k] /\ X.st[k] = "exc") => X.te[k] >= X.ta[s]
      /\ X.cause[s] = "timeout" =>
            /\ C.tmo[s] >= 0 /\ X.ta[s] = Deadline(C, X, s)
            /\ NonForever(C, s) # {} => \E k \in NonForever(C, s) : ~(Gone(X, k) /\ X.te[k] < X.ta[s])
            /\ \A k \in Kids(C, s) : (C.crit[k] /\ X.st[k] = "exc") => X.te[k] >= X.ta[s]
      /\ X.cause[s] = "critical" =>
            /\ \E k \in Kids(C, s) : C.crit[k] /\ X.st[k] = "exc" /\ X.te[k] = X.ta[s]
            /\ C.tmo[s] >= 0 => X.ta[s] <= Deadline(C, X, s)
      /\ X.cause[s] # "success" =>
            IF ~Raising(C, s) THEN X.st[s] = "ok" /\ X.res[s] = <<"false", 0>>
            ELSE /\ X.st[s] = "exc"
                 /\ IF X.cause[s] = "timeout" THEN X.res[s] = <<"exc", 0 - s>>
                    ELSE \E k \in Kids(C, s) : C.crit[k] /\ X.st[k] = "exc" /\ X.res[s] = X.res[k]

(* what holds of the children of a scheduler that has left its main loop,  *)
(* whatever the cause: nothing is queued, nothing started after the abort, *)
(* the only children still alive are being cancelled                       *)
AbortShape(C, X, s) ==
  /\ \A k \in Kids(C, s) :
        /\ X.st[k] # "queued"
        /\ X.nstart[k] > 0 => X.t0[k] <= X.ta[s]
        /\ X.st[k] = "running" => /\ IsSched(C, k)
                                  /\ X.creq[k] \/ X.cause[k] = "cancelled"
        /\ X.st[k] \in {"running", "cancelling"} => X.pc[s] = "tidy"
        \* (a body that raised while being cancelled finished after the abort: tc >= 0)
        /\ (Gone(X, k) /\ X.tc[k] < 0) => X.te[k] <= X.ta[s]

(* C05  critical failure aborts at once                                    *)
C05(C, X) ==
  \A s \in Scheds(C) :
    (Aborted(X, s) /\ X.cause[s] = "critical") =>
       /\ AbortShape(C, X, s)
       /\ \A k \in Kids(C, s) : (IsJob(C, k) /\ X.st[k] \in {"cancelling", "cancelled"} /\ X.nstart[k] > 0)
                                   => X.tc[k] = X.ta[s]

(* C07  windows                                                            *)
C07(C, X) == \A s \in Scheds(C) : C.win[s] > 0 => Occ(C, X, s) <= C.win[s]

(* C08  timeouts                                                           *)
C08(C, X) ==
  \A s \in Scheds(C) :
    /\ (Aborted(X, s) /\ X.cause[s] = "timeout") =>
         /\ AbortShape(C, X, s)
         /\ C.tmo[s] >= 0 /\ X.ta[s] = Deadline(C, X, s)
         /\ \A k \in Kids(C, s) : (IsJob(C, k) /\ X.st[k] \in {"cancelling", "cancelled"} /\ X.nstart[k] > 0)
                                     => X.tc[k] = X.ta[s]
    \* a run still in its main loop is never past its deadline when time is about to pass
    /\ (C.tmo[s] >= 0 /\ MainG(C, X, s)) => X.now <= Deadline(C, X, s)
    \* the timeout has no effect when everything finished strictly before it
    \* (a scheduler with no non-forever job at all is outside this clause: its run
    \*  ends with the first forever job that completes, or at the timeout)
    /\ (X.cause[s] = "timeout" /\ NonForever(C, s) # {})
          => ~(\A k \in NonForever(C, s) : Gone(X, k) /\ X.te[k] < X.ta[s])

(* C09  forever jobs                                                       *)
C09(C, X) ==
  \A s \in Scheds(C) :
    (Aborted(X, s) /\ X.cause[s] = "success" /\ Kids(C, s) # {}) =>
       /\ AbortShape(C, X, s)
       /\ NonForever(C, s) # {} => X.ta[s] = Max({X.te[k] : k \in NonForever(C, s)})
       /\ \A k \in Kids(C, s) : ~Gone(X, k) => C.forever[k]
       /\ \A k \in Kids(C, s) : (IsJob(C, k) /\ X.st[k] \in {"cancelling", "cancelled"} /\ X.nstart[k] > 0)
                                   => X.tc[k] = X.ta[s]

(* C10  a nested scheduler is one job of its parent                        *)
C10(C, X) ==
  \A s \in Scheds(C) \ {Root} :
    /\ Fin(X, s) => Over(X, s) /\ \A d \in Desc(C, s) : ~Live(X, d)
    /\ X.st[s] = "exc" => Raising(C, s) /\ X.cause[s] \in {"timeout", "critical"}
    /\ (X.st[s] = "ok" /\ X.res[s] = <<"false", 0>>) => ~C.crit[s]
    /\ \A d \in Kids(C, s) : X.nstart[d] > 0 => X.t0[d] >= X.t0[s]
    /\ \A d \in Kids(C, s) : (Fin(X, d) /\ Fin(X, s)) => X.te[d] <= X.te[s]

(* C11  clean exit                                                         *)
C11(C, X) ==
  /\ \A s \in Scheds(C) : Over(X, s) => \A d \in Desc(C, s) : ~Live(X, d)
  \* handlers can be pending below s only while s itself is casting
  \* (or while the caller's explicit shutdown() is going on)
  /\ \A s \in Scheds(C) : (Over(X, s) /\ ~ShPending(X, s) /\ X.xs # "running") => \A d \in Desc(C, s) : ~ShPending(X, d)
  /\ Over(X, Root) => \A n \in Nodes(C) : ~Live(X, n) /\ ~X.creq[n]
  /\ (Over(X, Root) /\ X.xs # "running") => \A n \in Nodes(C) : ~ShPending(X, n)

(* C12  eager start (unwindowed schedulers)                                *)
C12(C, X) ==
  \A j \in Nodes(C) \ {Root} :
     (X.nstart[j] > 0 /\ C.win[C.parent[j]] = 0) =>
        X.t0[j] = Max({X.te[r] : r \in C.req[j]} \cup {X.t0[C.parent[j]]})
(* ... and, windows included, time never passes over an eligible job       *)
C12Tick(C, X) ==
  TickG(C, X) => \A j \in Nodes(C) \ {Root} :
                    ~( /\ X.st[j] \in {"idle", "queued"} /\ X.pc[C.parent[j]] = "main"
                       /\ X.st[C.parent[j]] = "running" /\ ~X.creq[C.parent[j]]
                       /\ \A r \in C.req[j] : Fin(X, r)
                       /\ HasRoom(C, X, C.parent[j]) )

(* C13  shutdown                                                           *)
C13(C, X) ==
  /\ \A n \in Nodes(C) : X.nshut[n] <= 1
  /\ \A s \in Scheds(C) :
       (Over(X, s) /\ X.cause[s] \in {"success", "timeout", "critical"} /\ Kids(C, s) # {}) =>
           /\ \A d \in Desc(C, s) : X.nshut[d] = 1 /\ ~ShPending(X, d)
           /\ X.did[s]
           \* bounded: shutdown_timeout, plus the unwinding of the handlers cancelled then
           /\ (C.stmo[s] >= 0 /\ ~C.preshut) => X.te[s] <= X.sdl[s] + Max({C.scdur[d] : d \in Desc(C, s)} \cup {0})
  /\ \A k \in Nodes(C) \ {Root} :
       X.sh[k] # "none" => \A b \in Desc(C, C.parent[k]) : ~Live(X, b)
  \* once the caller's explicit shutdown() has returned, every job has had it, exactly once,
  \* however the run ended
  /\ X.xs = "done" => \A n \in Nodes(C) \ {Root} : X.nshut[n] = 1 /\ ~ShPending(X, n)
  /\ X.xs # "none" => Over(X, Root)

(* C14  the inspection predicates are functions of the state               *)
IsIdleOf(X, n)      == X.st[n] = "idle"
IsScheduledOf(X, n) == X.st[n] # "idle"
IsRunningOf(X, n)   == X.nstart[n] > 0
IsDoneOf(X, n)      == Fin(X, n)
BitsOf(X, n) == (IF IsIdleOf(X, n) THEN 1 ELSE 0) + (IF IsScheduledOf(X, n) THEN 2 ELSE 0)
              + (IF IsRunningOf(X, n) THEN 4 ELSE 0) + (IF IsDoneOf(X, n) THEN 8 ELSE 0)
C14(C, X) ==
  \A n \in Nodes(C) \ {Root} :
     /\ IsDoneOf(X, n) => IsRunningOf(X, n)
     /\ IsRunningOf(X, n) => IsScheduledOf(X, n)
     /\ IsIdleOf(X, n) <=> ~IsScheduledOf(X, n)
     /\ X.st[n] = "queued" => IsScheduledOf(X, n) /\ ~IsRunningOf(X, n)
     /\ X.st[n] \in {"cancelled", "cancelling", "idle", "queued", "running"} => ~IsDoneOf(X, n)
     /\ X.st[n] = "ok" => X.res[n][1] \in {"ret", "true", "false"}
     /\ X.st[n] = "exc" <=> X.res[n][1] = "exc"
(* rank of the life cycle; never decreases along a step *)
Rank(X, n) == CASE X.st[n] = "idle" -> 0 [] X.st[n] = "queued" -> 1
                [] X.st[n] \in {"running", "cancelling"} -> 2 [] OTHER -> 3
C14Step(C, X, Y) ==
  \A n \in Nodes(C) : /\ Rank(X, n) <= Rank(Y, n)
                      /\ Fin(X, n) => Y.st[n] = X.st[n] /\ Y.res[n] = X.res[n] /\ Y.te[n] = X.te[n]
                      /\ X.nstart[n] <= Y.nstart[n]

-----------------------------------------------------------------------------
(* Admissibility (hypothesis of C03), as a predicate on configurations     *)
RECURSIVE Ends(_, _)
(* n ends by itself, in every run in which it is started                   *)
GoodSched(C, s) ==
  /\ Kids(C, s) = {} \/ NonForever(C, s) # {}
  /\ \A k \in NonForever(C, s) : Ends(C, k) /\ \A r \in UpReq(C, k) : Ends(C, r)
  /\ C.win[s] = 0 \/ C.win[s] > Cardinality({k \in Kids(C, s) : ~Ends(C, k)})
Ends(C, n) == IF IsJob(C, n) THEN C.dur[n] # -1 ELSE C.tmo[n] >= 0 \/ GoodSched(C, n)
Admissible(C) ==
  /\ \A s \in Scheds(C) : Ends(C, s)
  /\ \A j \in Nodes(C) \ {Root} : IsJob(C, j) => C.sdur[j] >= 0 \/ C.stmo[C.parent[j]] >= 0
  \* a clean-up that waits for a sibling's cancellation: the sibling is a job that is there
  \* from the first instant of their scheduler's run (so it is cancelled along, or over)
  /\ \A j \in Nodes(C) : C.cwait[j] # 0 =>
        /\ IsJob(C, j) /\ IsJob(C, C.cwait[j]) /\ C.parent[C.cwait[j]] = C.parent[j]
        /\ C.req[C.cwait[j]] = {} /\ C.win[C.parent[j]] = 0
  \* a body that ends in CancelledError on its own never counts as finished for those
  \* that require it: nobody does
  /\ \A j \in Nodes(C) : C.out[j] = "selfc" => \A k \in Nodes(C) : j \notin C.req[k]

=============================================================================
