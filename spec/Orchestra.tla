------------------------------ MODULE Orchestra ------------------------------
(***************************************************************************)
(* Runtime semantics of an asynciojobs scheduler tree.                     *)
(*                                                                         *)
(* One run of a top-level (Pure)Scheduler over a tree of jobs and nested   *)
(* schedulers: requirement-driven start, windows, timeouts, critical       *)
(* abort, forever jobs, cancellation of nested runs, the whole             *)
(* co_shutdown() protocol, and what the caller may do around the run       *)
(* (cancel it, call shutdown() before it or after it).  One action per     *)
(* suspension point of the                                                 *)
(* implementation (asynciojobs/purescheduler.py, scheduler.py, window.py). *)
(*                                                                         *)
(* Every guard and every effect is an operator of a configuration C and a  *)
(* state record X, not of the variables, so that the trace specification   *)
(* (OrchestraTrace), the lock-step twin (OrchestraTwin) and the outcome    *)
(* predictor (OrchestraPredict) re-use exactly the same definitions.       *)
(*                                                                         *)
(* Configuration C (constant along a behaviour; nodes are 1..C.n, node 1   *)
(* is the top-level scheduler):                                            *)
(*   kind[n]  "job" | "sched"        parent[n] (0 for the root)            *)
(*   req[n]   set of siblings required by n                                *)
(*   crit[n], forever[n]             flags of jobs and nested schedulers   *)
(*   win[s]   jobs_window (0 = no limit)                                   *)
(*   tmo[s]   timeout (-1 = None)    stmo[s] shutdown_timeout (-1 = None)  *)
(*   dur[j]   body duration (>= 0; -1 = never ends; -2 = any: chosen by    *)
(*            the environment while the behaviour unfolds)                 *)
(*   out[j]   "ok" | "exc" | "any"   outcome of the body;  "selfc": the    *)
(*            body ends in CancelledError on its own (it awaited something *)
(*            that got cancelled): its task ends cancelled although nobody *)
(*            cancelled it; the scheduler counts it as completed, but it is*)
(*            never "done" and releases nobody                             *)
(*   sdur[j]  duration of the co_shutdown() handler (-1 = never returns)   *)
(*   cdur[j]  duration of the clean-up a cancelled body performs           *)
(*   scdur[j] duration of the clean-up a cancelled co_shutdown() performs  *)
(*   cout[j]  "cancelled" | "exc": how the clean-up of a cancelled body ends:*)
(*            by letting CancelledError through, or by raising something   *)
(*            else (a failing `finally:`): the body then "finished by      *)
(*            raising", after the scheduler has given it up                *)
(*   cwait[j] 0, or a sibling whose cancellation (or end) the clean-up of  *)
(*            the cancelled body of j waits for (e.g. a lock that sibling  *)
(*            holds): _tidy_tasks cancels every pending task before it     *)
(*            awaits any of them, and such jobs rely on it                 *)
(*   xshut    the caller issues shutdown() once the top-level run is over, *)
(*            also when it has cancelled that run (which then ended without*)
(*            any shutdown phase): the explicit shutdown is then the real  *)
(*            thing, with the same protocol as at the end of a run         *)
(*   preshut  shutdown() was called on the whole tree before the run: every*)
(*            job has had its co_shutdown(), every scheduler remembers it  *)
(*   pure     the top is a PureScheduler (never raises)                    *)
(*   ucancel  instant at which the caller cancels the task running the     *)
(*            top-level co_run() (-1 = never)                              *)
(*   horizon  last instant considered in free mode (dur = -2)              *)
(***************************************************************************)
EXTENDS Integers, FiniteSets, Sequences, TLC

Root == 1
NONE == <<"none", 0>>

Nodes(C)       == 1..C.n
IsSched(C, n)  == C.kind[n] = "sched"
IsJob(C, n)    == C.kind[n] = "job"
Scheds(C)      == {n \in Nodes(C) : IsSched(C, n)}
Jobs(C)        == {n \in Nodes(C) : IsJob(C, n)}
Kids(C, s)     == {k \in Nodes(C) : C.parent[k] = s}
Raising(C, s)  == C.crit[s] /\ ~(s = Root /\ C.pure)

(* configurations read from JSON (arrays become sequences) *)
RangeOf(q) == {q[i] : i \in 1..Len(q)}
CfgOf(J) ==
  [ n |-> J.n, pure |-> J.pure, kind |-> J.kind, parent |-> J.parent,
    req |-> [i \in 1..J.n |-> RangeOf(J.req[i])],
    crit |-> J.crit, forever |-> J.forever, win |-> J.win, tmo |-> J.tmo,
    stmo |-> J.stmo, dur |-> J.dur, out |-> J.out, sdur |-> J.sdur,
    cdur |-> J.cdur, scdur |-> J.scdur, horizon |-> J.horizon, ucancel |-> J.ucancel,
    cwait |-> J.cwait, preshut |-> J.preshut, xshut |-> J.xshut, cout |-> J.cout ]

Min(T) == CHOOSE t \in T : \A u \in T : t <= u
Max(T) == CHOOSE t \in T : \A u \in T : t >= u

-----------------------------------------------------------------------------
(* State record X                                                          *)
(*   now        virtual time                                               *)
(*   st[n]      idle | queued | running | cancelling | ok | exc | cancelled*)
(*              | selfc (the body ended in CancelledError on its own)      *)
(*              queued = its task exists, the body has not been entered    *)
(*              (waiting for the loop, or for a window slot)               *)
(*   pc[s]      idle | main | tidy | shut | over   phase of s's own run    *)
(*   cause[s]   none | success | timeout | critical | cancelled            *)
(*   proc       finished children already seen by their scheduler          *)
(*   creq[s]    cancel() was called on the task of s's run and has not     *)
(*              reached its coroutine yet                                  *)
(*   t0,te,tc,ta   times: body entry, end, cancel request, abort           *)
(*   res[n]     NONE | <<"ret",n>> | <<"true",0>> | <<"false",0>> |        *)
(*              <<"exc",o>>  o = node whose body raised, or -s for the     *)
(*              TimeoutError made by scheduler s  (exception identity)     *)
(*   sh[n]      the co_shutdown() sent to n by its scheduler:              *)
(*              none | running | creq | cing | done | cancelled            *)
(*              (creq: cancel requested on a relaying nested scheduler;    *)
(*               cing: request delivered, waiting for its own handlers; for*)
(*               a job: its cancelled handler is still unwinding, scdur)   *)
(*   relayed[s] the co_shutdown() sent to s has begun executing            *)
(*   did[s]     _did_shutdown                                              *)
(*   sres[s]    none | true | false | skip   value of s's broadcasting     *)
(*              co_shutdown(); skip = it had shut down already (None)      *)
(*   ts, tsc, sdl  handler start / handler cancel time; shutdown deadline  *)
(*              of a broadcast                                             *)
(*   ucf        the caller's cancellation of the top-level run has fired   *)
(*   xs         none | running | done   the explicit shutdown() issued after*)
(*              the top-level run                                          *)
(*   nstart[n]  number of body entries;  nshut[n] co_shutdown() received   *)
(***************************************************************************)

Live(X, k) == X.st[k] \in {"queued", "running", "cancelling"}
Fin(X, k)  == X.st[k] \in {"ok", "exc"}
(* the task has ended while its scheduler was waiting for it: what asyncio.wait *)
(* returns as done                                                              *)
Gone(X, k) == X.st[k] \in {"ok", "exc", "selfc"}

Occ(C, X, s)     == Cardinality({k \in Kids(C, s) : X.st[k] \in {"running", "cancelling"}})
HasRoom(C, X, s) == C.win[s] = 0 \/ Occ(C, X, s) < C.win[s]

InitS(C) ==
  [ now |-> 0,
    st  |-> [n \in Nodes(C) |-> IF n = Root THEN "running"
                                ELSE IF C.parent[n] = Root /\ C.req[n] = {} THEN "queued" ELSE "idle"],
    pc  |-> [n \in Nodes(C) |-> IF n = Root THEN (IF Kids(C, Root) = {} THEN "over" ELSE "main")
                                ELSE IF IsSched(C, n) THEN "idle" ELSE "-"],
    cause |-> [n \in Nodes(C) |-> IF n = Root /\ Kids(C, Root) = {} THEN "success" ELSE "none"],
    creq |-> [n \in Nodes(C) |-> FALSE],
    relayed |-> [n \in Nodes(C) |-> FALSE],
    proc |-> {},
    ucf |-> FALSE,
    xs |-> "none",
    t0  |-> [n \in Nodes(C) |-> IF n = Root THEN 0 ELSE -1],
    tc  |-> [n \in Nodes(C) |-> -1],
    te  |-> [n \in Nodes(C) |-> IF n = Root /\ Kids(C, Root) = {} THEN 0 ELSE -1],
    ta  |-> [n \in Nodes(C) |-> -1],
    res |-> [n \in Nodes(C) |-> IF n = Root /\ Kids(C, Root) = {} THEN <<"true", 0>> ELSE NONE],
    sh  |-> [n \in Nodes(C) |-> "none"],
    ts  |-> [n \in Nodes(C) |-> -1],
    tsc |-> [n \in Nodes(C) |-> -1],
    sdl |-> [n \in Nodes(C) |-> -1],
    sres |-> [n \in Nodes(C) |-> "none"],
    did |-> [n \in Nodes(C) |-> C.preshut /\ IsSched(C, n)],
    nstart |-> [n \in Nodes(C) |-> IF n = Root THEN 1 ELSE 0],
    nshut |-> [n \in Nodes(C) |-> IF C.preshut /\ n # Root THEN 1 ELSE 0] ]

-----------------------------------------------------------------------------
(* task.cancel() on the tasks of the nodes in R (one tree level).          *)
(* A task that has not entered its body is cancelled at once; a running    *)
(* body will see CancelledError; a nested run in its main loop or in its   *)
(* shutdown wait gets the request (creq), one that is already waiting for  *)
(* its cancelled jobs just remembers it.                                   *)
CancelTasks(C, X, R) ==
  [X EXCEPT
     !.st = [n \in Nodes(C) |->
               IF n \notin R THEN X.st[n]
               ELSE IF X.st[n] = "queued" THEN "cancelled"
               ELSE IF X.st[n] = "running" /\ IsJob(C, n) THEN "cancelling"
               ELSE X.st[n]],
     !.creq = [n \in Nodes(C) |->
               IF n \in R /\ IsSched(C, n) /\ X.st[n] = "running" /\ X.pc[n] \in {"main", "shut"}
               THEN TRUE ELSE X.creq[n]],
     !.cause = [n \in Nodes(C) |->
               IF n \in R /\ IsSched(C, n) /\ X.st[n] = "running" /\ X.pc[n] = "tidy"
               THEN "cancelled" ELSE X.cause[n]],
     !.tc = [n \in Nodes(C) |-> IF n \in R /\ X.st[n] = "running" THEN X.now ELSE X.tc[n]],
     !.te = [n \in Nodes(C) |-> IF n \in R /\ X.st[n] = "queued" THEN X.now ELSE X.te[n]]]

(* cancel() on the co_shutdown() tasks of the nodes in R (one level)       *)
ShPending(X, n) == X.sh[n] \in {"running", "creq", "cing"}
CancelHandlers(C, X, R) ==
  [X EXCEPT
     !.sh = [n \in Nodes(C) |->
               IF n \notin R \/ X.sh[n] # "running" THEN X.sh[n]
               ELSE IF IsSched(C, n) /\ X.relayed[n] THEN "creq"
               ELSE IF IsJob(C, n) /\ C.scdur[n] > 0 THEN "cing"
               ELSE "cancelled"],
     !.tsc = [n \in Nodes(C) |-> IF n \in R /\ X.sh[n] = "running" THEN X.now ELSE X.tsc[n]]]

(* co_shutdown() tasks created by scheduler s for its members (one level)  *)
Broadcast(C, X, s) ==
  LET T == Kids(C, s)
  IN [X EXCEPT
       !.did[s] = TRUE,
       !.sh  = [n \in Nodes(C) |-> IF n \in T THEN "running" ELSE X.sh[n]],
       !.ts  = [n \in Nodes(C) |-> IF n \in T THEN X.now ELSE X.ts[n]],
       !.nshut = [n \in Nodes(C) |-> IF n \in T THEN X.nshut[n] + 1 ELSE X.nshut[n]],
       !.sdl[s] = IF C.stmo[s] < 0 THEN -1 ELSE X.now + C.stmo[s]]

-----------------------------------------------------------------------------
(* Admit(j): Window.run_job gets a slot, the body is entered.  For a nested*)
(* scheduler its co_run() begins and its entry jobs get their tasks; an    *)
(* empty scheduler returns True at once (without any shutdown).            *)
AdmitG(C, X, j) == /\ j # Root /\ X.st[j] = "queued"
                   /\ X.pc[C.parent[j]] = "main" /\ HasRoom(C, X, C.parent[j])
AdmitF(C, X, j) ==
  LET X1 == [X EXCEPT !.t0[j] = X.now, !.nstart[j] = @ + 1] IN
  IF IsSched(C, j) /\ Kids(C, j) = {}
  THEN [X1 EXCEPT !.st[j] = "ok", !.pc[j] = "over", !.res[j] = <<"true", 0>>,
                  !.te[j] = X.now, !.cause[j] = "success"]
  ELSE IF IsSched(C, j)
  THEN [X1 EXCEPT !.st = [n \in Nodes(C) |-> IF n = j THEN "running"
                             ELSE IF C.parent[n] = j /\ C.req[n] = {} THEN "queued" ELSE X.st[n]],
                  !.pc[j] = "main"]
  ELSE [X1 EXCEPT !.st[j] = "running"]

(* JobEnd(j, o): the body returns (o = "ok") or raises (o = "exc")         *)
JobEndG(C, X, j) == /\ IsJob(C, j) /\ X.st[j] = "running"
                    /\ \/ C.dur[j] >= 0 /\ X.now >= X.t0[j] + C.dur[j]
                       \/ C.dur[j] = -2
OutOK(C, j, o)   == IF o = "selfc" THEN C.out[j] = "selfc"
                    ELSE o \in {"ok", "exc"} /\ (C.out[j] = "any" \/ C.out[j] = o)
JobEndF(C, X, j, o) ==
  [X EXCEPT !.st[j] = o, !.te[j] = X.now,
            !.res[j] = IF o = "ok" THEN <<"ret", j>> ELSE IF o = "exc" THEN <<"exc", j>> ELSE NONE]

(* CancelDone(j): a cancelled body has finished its clean-up               *)
Released(C, X, j)    == IF C.cwait[j] = 0 THEN TRUE ELSE X.st[C.cwait[j]] \in {"cancelling", "ok", "exc", "cancelled", "selfc"}
CancelDoneG(C, X, j) == /\ IsJob(C, j) /\ X.st[j] = "cancelling" /\ X.now >= X.tc[j] + C.cdur[j]
                        /\ Released(C, X, j)
CancelDoneF(C, X, j) == IF C.cout[j] = "exc"
                        THEN [X EXCEPT !.st[j] = "exc", !.te[j] = X.now, !.res[j] = <<"exc", j>>]
                        ELSE [X EXCEPT !.st[j] = "cancelled", !.te[j] = X.now]

(* UserCancel: the caller cancels the task that runs the top-level co_run()  *)
(* (e.g. asyncio.wait_for around it): the same one-level cancellation a      *)
(* nested run gets from its parent                                           *)
UserCancelG(C, X) == C.ucancel >= 0 /\ ~X.ucf /\ X.now >= C.ucancel /\ X.pc[Root] # "over"
UserCancelF(C, X) == [CancelTasks(C, X, {Root}) EXCEPT !.ucf = TRUE]

(* Abort(s, why): cancel every live child, then wait for them (_tidy_tasks)*)
AbortF(C, X, s, why) ==
  LET X1 == CancelTasks(C, X, {k \in Kids(C, s) : Live(X, k)})
  IN [X1 EXCEPT !.pc[s] = "tidy", !.cause[s] = why, !.ta[s] = X.now, !.creq[s] = FALSE]

(* Process(s, D): asyncio.wait returns with done = D; exceptions consumed, *)
(* critical check, completion count, successor scan                        *)
MainG(C, X, s)  == IsSched(C, s) /\ X.st[s] = "running" /\ X.pc[s] = "main" /\ ~X.creq[s]
Unseen(C, X, s) == {k \in Kids(C, s) : Gone(X, k) /\ k \notin X.proc}
ProcessG(C, X, s, D) == MainG(C, X, s) /\ D # {} /\ D \subseteq Unseen(C, X, s)
ProcessF(C, X, s, D) ==
  LET X1 == [X EXCEPT !.proc = @ \cup D]
      crit == \E d \in D : X.st[d] = "exc" /\ C.crit[d]
      all  == \A k \in Kids(C, s) : ~C.forever[k] => k \in X1.proc
      cand == {c \in Kids(C, s) : /\ X.st[c] = "idle" /\ C.req[c] \cap D # {}
                                  /\ \A r \in C.req[c] : Fin(X, r)}
  IN IF crit THEN AbortF(C, X1, s, "critical")
     ELSE IF all THEN AbortF(C, X1, s, "success")
     ELSE [X1 EXCEPT !.st = [n \in Nodes(C) |-> IF n \in cand THEN "queued" ELSE X1.st[n]]]

(* Timeout(s): the wait of the main loop returns with nothing done         *)
(* (a completion that happened strictly before the deadline is always seen  *)
(*  before the expiry is: the wait returns it even when the loop is late)    *)
TimeoutG(C, X, s) == /\ MainG(C, X, s) /\ C.tmo[s] >= 0 /\ X.now >= X.t0[s] + C.tmo[s]
                     /\ \A k \in Unseen(C, X, s) : X.te[k] >= X.t0[s] + C.tmo[s]
TimeoutF(C, X, s) == AbortF(C, X, s, "timeout")

(* CancelProp(s): the cancellation of a nested run reaches its coroutine,  *)
(* in the main wait (-> cancel and await its own jobs) or in the wait of   *)
(* its own shutdown phase (-> cancel and await its handlers)               *)
CancelPropG(C, X, s) == /\ IsSched(C, s) /\ X.st[s] = "running" /\ X.creq[s]
                        /\ (X.pc[s] = "shut" => \A k \in Kids(C, s) : ~(X.sh[k] = "running" /\ IsSched(C, k) /\ ~X.relayed[k]))
CancelPropF(C, X, s) ==
  IF X.pc[s] = "main" THEN AbortF(C, X, s, "cancelled")
  ELSE [CancelHandlers(C, X, {k \in Kids(C, s) : X.sh[k] = "running"})
          EXCEPT !.creq[s] = FALSE, !.cause[s] = "cancelled"]

(* the end of s's own run: verdict from the cause, crit[s] and pure        *)
EndRunF(C, X, s, k) ==
  LET X1 == [X EXCEPT !.pc[s] = "over", !.te[s] = X.now]
  IN IF X.cause[s] = "cancelled" THEN [X1 EXCEPT !.st[s] = "cancelled"]
     ELSE IF X.cause[s] = "success" THEN [X1 EXCEPT !.st[s] = "ok", !.res[s] = <<"true", 0>>]
     ELSE IF ~Raising(C, s) THEN [X1 EXCEPT !.st[s] = "ok", !.res[s] = <<"false", 0>>]
     ELSE IF X.cause[s] = "timeout" THEN [X1 EXCEPT !.st[s] = "exc", !.res[s] = <<"exc", 0 - s>>]
     ELSE [X1 EXCEPT !.st[s] = "exc", !.res[s] = X.res[k]]

(* TidyDone(s): every cancelled child is over.  A cancelled run ends here  *)
(* (CancelledError leaves co_run); otherwise co_shutdown() begins: it      *)
(* returns at once (sres = "skip"; same task step as the end of the run)   *)
(* when the scheduler has shut down before                                 *)
TidyDoneG(C, X, s) == /\ IsSched(C, s) /\ X.st[s] = "running" /\ X.pc[s] = "tidy"
                      /\ \A k \in Kids(C, s) : ~Live(X, k)
TidyDoneF(C, X, s, k) ==
  IF X.cause[s] = "cancelled"
  THEN [X EXCEPT !.st[s] = "cancelled", !.pc[s] = "over", !.te[s] = X.now]
  ELSE IF X.did[s] THEN EndRunF(C, [X EXCEPT !.sres[s] = "skip"], s, k)
  ELSE Broadcast(C, [X EXCEPT !.pc[s] = "shut"], s)
(* the critical job whose exception a skipped shutdown lets through at once   *)
TidyKs(C, X, s) == IF X.did[s] /\ X.cause[s] = "critical" /\ Raising(C, s)
                   THEN {k \in Kids(C, s) : C.crit[k] /\ X.st[k] = "exc"} ELSE {s}

(* HandlerEnd(j): a job's co_shutdown() returns                            *)
HandlerEndG(C, X, j) == /\ IsJob(C, j) /\ X.sh[j] = "running"
                        /\ C.sdur[j] >= 0 /\ X.now >= X.ts[j] + C.sdur[j]
HandlerEndF(C, X, j) == [X EXCEPT !.sh[j] = "done"]

(* HandlerCancelDone(j): a cancelled co_shutdown() has finished unwinding   *)
HandlerCancelDoneG(C, X, j) == /\ IsJob(C, j) /\ X.sh[j] = "cing" /\ X.now >= X.tsc[j] + C.scdur[j]
HandlerCancelDoneF(C, X, j) == [X EXCEPT !.sh[j] = "cancelled"]

(* Relay(c): the co_shutdown() a nested scheduler received from its parent *)
(* begins: nothing to do if it has shut down already or has no member,     *)
(* otherwise it broadcasts to its own members                              *)
RelayG(C, X, c) == IsSched(C, c) /\ c # Root /\ X.sh[c] = "running" /\ ~X.relayed[c]
RelayF(C, X, c) ==
  LET X1 == [X EXCEPT !.relayed[c] = TRUE] IN
  IF X.did[c] THEN [X1 EXCEPT !.sh[c] = "done"]
  ELSE IF Kids(C, c) = {} THEN [X1 EXCEPT !.sh[c] = "done", !.did[c] = TRUE, !.sres[c] = "true"]
  ELSE Broadcast(C, X1, c)

OwnShut(C, X, s)  == IsSched(C, s) /\ X.st[s] = "running" /\ X.pc[s] = "shut"
AsMember(C, X, s) == IsSched(C, s) /\ X.relayed[s] /\ X.sh[s] \in {"running", "creq", "cing"}
XCast(C, X, s)    == s = Root /\ X.xs = "running"
Casting(C, X, s)  == OwnShut(C, X, s) \/ AsMember(C, X, s) \/ XCast(C, X, s)
Pend(C, X, s)     == {k \in Kids(C, s) : ShPending(X, k)}

(* The tasks created by a broadcast take their first step before the       *)
(* broadcaster's own next step (the loop's ready queue is FIFO): a nested  *)
(* scheduler's relay has always begun when its parent expires or is hit by *)
(* a cancellation.  This is what makes "every job receives co_shutdown()"  *)
(* true also with shutdown_timeout = 0.                                    *)
KidsRelayed(C, X, s) == \A k \in Kids(C, s) : ~RelayG(C, X, k)
ShutTimerLive(C, X, s) ==
  /\ Casting(C, X, s) /\ X.sdl[s] >= 0 /\ X.sres[s] = "none"
  /\ (OwnShut(C, X, s) => X.cause[s] # "cancelled")
  /\ (AsMember(C, X, s) => X.sh[s] = "running")

Culprits(C, X, s) == IF X.cause[s] = "critical" /\ Raising(C, s) /\ OwnShut(C, X, s)
                     THEN {k \in Kids(C, s) : C.crit[k] /\ X.st[k] = "exc"} ELSE {s}

(* ShutJoin(s, k): the shutdown wait of s is over                          *)
ShutJoinG(C, X, s) == /\ Casting(C, X, s) /\ Pend(C, X, s) = {} /\ ~X.creq[s]
                      /\ X.sh[s] # "creq"
ShutJoinF(C, X, s, k) ==
  LET X1 == [X EXCEPT !.sres[s] = IF X.sres[s] = "none" THEN "true" ELSE X.sres[s]]
  IN IF XCast(C, X, s) THEN [X1 EXCEPT !.xs = "done"]
     ELSE IF AsMember(C, X, s)
     THEN [X1 EXCEPT !.sh[s] = IF X.sh[s] = "cing" THEN "cancelled" ELSE "done"]
     ELSE EndRunF(C, X1, s, k)

(* ShutExpire(s): shutdown_timeout expires; pending handlers are cancelled *)
ShutExpireG(C, X, s) ==
  /\ ShutTimerLive(C, X, s) /\ Pend(C, X, s) # {} /\ X.now >= X.sdl[s]
  /\ ~X.creq[s] /\ KidsRelayed(C, X, s)
ShutExpireF(C, X, s) == [CancelHandlers(C, X, Pend(C, X, s)) EXCEPT !.sres[s] = "false"]

(* ShutCancelProp(c): the cancellation of a relayed co_shutdown() reaches  *)
(* the nested scheduler, which cancels its own pending handlers            *)
ShutCancelPropG(C, X, c) == IsSched(C, c) /\ X.sh[c] = "creq" /\ KidsRelayed(C, X, c)
ShutCancelPropF(C, X, c) == [CancelHandlers(C, X, Pend(C, X, c)) EXCEPT !.sh[c] = "cing"]

(* XShut: the explicit shutdown() of the caller, once the top-level run is *)
(* over: nothing to do when the top scheduler has shut down already (the   *)
(* run ended by itself) or has no member; a broadcast otherwise (the run   *)
(* was cancelled by the caller before any shutdown phase)                  *)
Terminated(C, X) == X.pc[Root] = "over"
XShutG(C, X) == C.xshut /\ Terminated(C, X) /\ X.xs = "none"
XShutF(C, X) ==
  IF X.did[Root] THEN [X EXCEPT !.xs = "done"]
  ELSE IF Kids(C, Root) = {} THEN [X EXCEPT !.xs = "done", !.did[Root] = TRUE, !.sres[Root] = "true"]
  ELSE Broadcast(C, [X EXCEPT !.xs = "running", !.sres[Root] = "none"], Root)

-----------------------------------------------------------------------------
(* Maximal progress: time passes only when no instant action is enabled    *)
AnyInstant(C, X) ==
  \/ \E j \in Nodes(C) : \/ AdmitG(C, X, j) \/ CancelDoneG(C, X, j) \/ HandlerEndG(C, X, j)
                         \/ HandlerCancelDoneG(C, X, j)
                         \/ (JobEndG(C, X, j) /\ C.dur[j] >= 0)
  \/ UserCancelG(C, X) \/ XShutG(C, X)
  \/ \E s \in Scheds(C) : \/ (MainG(C, X, s) /\ Unseen(C, X, s) # {})
                          \/ TimeoutG(C, X, s) \/ TidyDoneG(C, X, s) \/ ShutJoinG(C, X, s)
                          \/ ShutExpireG(C, X, s) \/ CancelPropG(C, X, s) \/ RelayG(C, X, s)
                          \/ ShutCancelPropG(C, X, s)

Alarms(C, X) ==
     {X.t0[j] + C.dur[j] : j \in {x \in Jobs(C) : X.st[x] = "running" /\ C.dur[x] >= 0}}
  \cup {X.tc[j] + C.cdur[j] : j \in {x \in Jobs(C) : X.st[x] = "cancelling"}}
  \cup {X.t0[s] + C.tmo[s] : s \in {x \in Scheds(C) : MainG(C, X, x) /\ C.tmo[x] >= 0}}
  \cup {X.ts[j] + C.sdur[j] : j \in {x \in Jobs(C) : X.sh[x] = "running" /\ C.sdur[x] >= 0}}
  \cup {X.tsc[j] + C.scdur[j] : j \in {x \in Jobs(C) : X.sh[x] = "cing"}}
  \cup {X.sdl[s] : s \in {x \in Scheds(C) : ShutTimerLive(C, X, x)}}
  \cup (IF C.ucancel >= 0 /\ ~X.ucf /\ X.pc[Root] # "over" THEN {C.ucancel} ELSE {})
  \cup (IF (\E j \in Jobs(C) : X.st[j] = "running" /\ C.dur[j] = -2) /\ X.now < C.horizon
        THEN {X.now + 1} ELSE {})

Future(C, X) == {t \in Alarms(C, X) : t > X.now}
TickG(C, X)  == ~AnyInstant(C, X) /\ (X.pc[Root] # "over" \/ X.xs = "running") /\ Future(C, X) # {}
TickF(C, X)  == [X EXCEPT !.now = Min(Future(C, X))]

(* a state from which nothing can happen although the top run is not over  *)
Stuck(C, X) == ~Terminated(C, X) /\ ~AnyInstant(C, X) /\ Future(C, X) = {}
               /\ ~(\E j \in Jobs(C) : X.st[j] = "running" /\ C.dur[j] = -2)

-----------------------------------------------------------------------------
(* Generic action interface: an action is <<name, node, set, outcome, k>>.  *)
(* Used by the lock-step twin (same action applied to two states) and by   *)
(* the outcome predictor.                                                  *)
Act(name, n)  == <<name, n, {}, "-", 0>>
Acts(C, X) ==
       {Act("Admit", j) : j \in {x \in Nodes(C) : AdmitG(C, X, x)}}
  \cup {<<"JobEnd", j, {}, o, 0>> : j \in {x \in Nodes(C) : JobEndG(C, X, x)},
                                      o \in {"ok", "exc", "selfc"}}
  \cup {Act("CancelDone", j) : j \in {x \in Nodes(C) : CancelDoneG(C, X, x)}}
  \cup {Act("HandlerEnd", j) : j \in {x \in Nodes(C) : HandlerEndG(C, X, x)}}
  \cup {Act("HandlerCancelDone", j) : j \in {x \in Nodes(C) : HandlerCancelDoneG(C, X, x)}}
  \cup UNION {{<<"Process", s, D, "-", 0>> : D \in (SUBSET Unseen(C, X, s)) \ {{}}} :
                 s \in {x \in Scheds(C) : MainG(C, X, x)}}
  \cup {Act("Timeout", s) : s \in {x \in Scheds(C) : TimeoutG(C, X, x)}}
  \cup {Act("CancelProp", s) : s \in {x \in Scheds(C) : CancelPropG(C, X, x)}}
  \cup UNION {{<<"TidyDone", s, {}, "-", k>> : k \in TidyKs(C, X, s)} :
                 s \in {x \in Scheds(C) : TidyDoneG(C, X, x)}}
  \cup {Act("Relay", s) : s \in {x \in Scheds(C) : RelayG(C, X, x)}}
  \cup UNION {{<<"ShutJoin", s, {}, "-", k>> : k \in Culprits(C, X, s)} :
                 s \in {x \in Scheds(C) : ShutJoinG(C, X, x)}}
  \cup {Act("ShutExpire", s) : s \in {x \in Scheds(C) : ShutExpireG(C, X, x)}}
  \cup {Act("ShutCancelProp", s) : s \in {x \in Scheds(C) : ShutCancelPropG(C, X, x)}}
  \cup (IF UserCancelG(C, X) THEN {Act("UserCancel", 0)} ELSE {})
  \cup (IF XShutG(C, X) THEN {Act("XShut", 0)} ELSE {})
  \cup (IF TickG(C, X) THEN {Act("Tick", 0)} ELSE {})
ActOK(C, a) == a[1] = "JobEnd" => OutOK(C, a[2], a[4])
Apply(C, X, a) ==
  CASE a[1] = "Admit"      -> AdmitF(C, X, a[2])
    [] a[1] = "JobEnd"     -> JobEndF(C, X, a[2], a[4])
    [] a[1] = "CancelDone" -> CancelDoneF(C, X, a[2])
    [] a[1] = "HandlerEnd" -> HandlerEndF(C, X, a[2])
    [] a[1] = "HandlerCancelDone" -> HandlerCancelDoneF(C, X, a[2])
    [] a[1] = "Process"    -> ProcessF(C, X, a[2], a[3])
    [] a[1] = "Timeout"    -> TimeoutF(C, X, a[2])
    [] a[1] = "CancelProp" -> CancelPropF(C, X, a[2])
    [] a[1] = "TidyDone"   -> TidyDoneF(C, X, a[2], a[5])
    [] a[1] = "Relay"      -> RelayF(C, X, a[2])
    [] a[1] = "ShutJoin"   -> ShutJoinF(C, X, a[2], a[5])
    [] a[1] = "ShutExpire" -> ShutExpireF(C, X, a[2])
    [] a[1] = "ShutCancelProp" -> ShutCancelPropF(C, X, a[2])
    [] a[1] = "UserCancel" -> UserCancelF(C, X)
    [] a[1] = "XShut"      -> XShutF(C, X)
    [] a[1] = "Tick"       -> TickF(C, X)

-----------------------------------------------------------------------------
VARIABLES cfg, S
vars == <<cfg, S>>

Admit(j)      == AdmitG(cfg, S, j) /\ S' = AdmitF(cfg, S, j)
JobEnd(j)     == JobEndG(cfg, S, j) /\ \E o \in {"ok", "exc", "selfc"} : OutOK(cfg, j, o) /\ S' = JobEndF(cfg, S, j, o)
CancelDone(j) == CancelDoneG(cfg, S, j) /\ S' = CancelDoneF(cfg, S, j)
HandlerEnd(j) == HandlerEndG(cfg, S, j) /\ S' = HandlerEndF(cfg, S, j)
HandlerCancelDone(j) == HandlerCancelDoneG(cfg, S, j) /\ S' = HandlerCancelDoneF(cfg, S, j)
Process(s)    == \E D \in SUBSET Unseen(cfg, S, s) : ProcessG(cfg, S, s, D) /\ S' = ProcessF(cfg, S, s, D)
Timeout(s)    == TimeoutG(cfg, S, s) /\ S' = TimeoutF(cfg, S, s)
CancelProp(s) == CancelPropG(cfg, S, s) /\ S' = CancelPropF(cfg, S, s)
TidyDone(s)   == TidyDoneG(cfg, S, s) /\ \E k \in TidyKs(cfg, S, s) : S' = TidyDoneF(cfg, S, s, k)
Relay(s)      == RelayG(cfg, S, s) /\ S' = RelayF(cfg, S, s)
ShutJoin(s)   == ShutJoinG(cfg, S, s) /\ \E k \in Culprits(cfg, S, s) : S' = ShutJoinF(cfg, S, s, k)
ShutExpire(s) == ShutExpireG(cfg, S, s) /\ S' = ShutExpireF(cfg, S, s)
ShutCancelProp(s) == ShutCancelPropG(cfg, S, s) /\ S' = ShutCancelPropF(cfg, S, s)
Tick          == TickG(cfg, S) /\ S' = TickF(cfg, S)
UserCancel    == UserCancelG(cfg, S) /\ S' = UserCancelF(cfg, S)
XShut         == XShutG(cfg, S) /\ S' = XShutF(cfg, S)

Step ==
  \/ \E j \in Nodes(cfg) : Admit(j) \/ JobEnd(j) \/ CancelDone(j) \/ HandlerEnd(j) \/ HandlerCancelDone(j)
  \/ \E s \in Scheds(cfg) : \/ Process(s) \/ Timeout(s) \/ CancelProp(s) \/ TidyDone(s)
                            \/ Relay(s) \/ ShutJoin(s) \/ ShutExpire(s) \/ ShutCancelProp(s)
  \/ Tick
  \/ UserCancel
  \/ XShut

Next == UNCHANGED cfg /\ Step

=============================================================================
