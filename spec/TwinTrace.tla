----------------------------- MODULE TwinTrace -----------------------------
(***************************************************************************)
(* Metamorphic pairs of real runs, decided by TLC.                         *)
(*  mode "flip" (C06): the same scenario run twice, a non-critical job f   *)
(*    returning in run a and raising in run b.  Every event of every other *)
(*    job, every scheduler event, every verdict, every time must be the    *)
(*    same; for f itself only "returned" vs "raised" (and its result /     *)
(*    exception in the predicate samples) may differ.                      *)
(*  mode "flat" (C10): a tree whose nested schedulers are critical, without*)
(*    window, timeout or forever jobs, and its flattened graph: every      *)
(*    atomic job starts, ends, raises or is cancelled at the same times,   *)
(*    and the top-level verdict is the same.                               *)
(* Events of one instant are compared as a multiset (the order inside an   *)
(* instant may shift by a loop iteration).                                 *)
(***************************************************************************)
EXTENDS Integers, Sequences, FiniteSets, TLC, Json, IOUtils, TLCExt

Pairs == JsonDeserialize(IOEnv.TRACE_FILE)

VARIABLES pid, k
pvars == <<pid, k>>
PInit == pid \in 1..Len(Pairs) /\ k = 0
P == Pairs[pid]

(* projection of one event; <<>> = dropped *)
MaskSnap(sn, f) == [i \in 1..Len(sn) |-> IF i = f - 1 THEN <<sn[i][1], "masked", 0, 0>> ELSE sn[i]]
ProjFlip(e, f) ==
  IF e.k = "snap" THEN <<e.t, "snap", 0, "-", 0, MaskSnap(e.sn, f)>>
  ELSE IF e.k \in {"end", "raise"} /\ e.n = f THEN <<e.t, "fin", f, "-", 0, <<>>>>
  ELSE <<e.t, e.k, e.n, e.v, e.i, <<>>>>

JobEvents == {"start", "end", "raise", "cancel", "cancel-done"}
(* Ties.  When a run fails, what happens inside its last instant depends on  *)
(* the order in which the loop serves the events of that instant, and the   *)
(* nested tree and the flat graph legitimately differ there (cancellation   *)
(* travels one tree level per wake-up): a job released in that instant may  *)
(* or may not start (and, if it takes no time, finish); a job due to end in *)
(* that instant may end or be cancelled.  So, in the last instant of a      *)
(* failed run: jobs that start there are left out, and for the others only  *)
(* the fact that they are over is compared, not how.  Which of several      *)
(* simultaneous critical exceptions comes out is not compared either (the   *)
(* identity rule is C04's, checked on every trace).                         *)
TopEv(ev)   == ev[CHOOSE i \in 1..Len(ev) : ev[i].k = "top"]
Failed(ev)  == TopEv(ev).v # "true"
LastT(ev)   == TopEv(ev).t
StartT(ev, n) == IF \E i \in 1..Len(ev) : ev[i].k = "start" /\ ev[i].n = n
                 THEN ev[CHOOSE i \in 1..Len(ev) : ev[i].k = "start" /\ ev[i].n = n].t ELSE -1
ProjFlat(e, map, ev) ==
  IF e.k \in JobEvents THEN
       (IF Failed(ev) /\ StartT(ev, e.n) = LastT(ev) THEN <<>>
        ELSE IF Failed(ev) /\ e.t = LastT(ev) THEN
             (IF e.k = "cancel" THEN <<>>
              ELSE IF e.k \in {"end", "raise", "cancel-done"} THEN <<e.t, "over", map[e.n], "-", 0, <<>>>>
              ELSE <<e.t, e.k, map[e.n], "-", 0, <<>>>>)
        ELSE <<e.t, e.k, map[e.n], "-", 0, <<>>>>)
  ELSE IF e.k = "top" THEN <<e.t, "top", 1, e.v, 0, <<>>>>
  ELSE <<>>

ProjAll(ev, mode, f, map) ==
  LET q == [i \in 1..Len(ev) |-> IF mode = "flip" THEN ProjFlip(ev[i], f) ELSE ProjFlat(ev[i], map, ev)]
  IN SelectSeq(q, LAMBDA x : x # <<>>)

Count(q, x) == Cardinality({i \in 1..Len(q) : q[i] = x})
Missing(p, q) == {i \in 1..Len(p) : Count(p, p[i]) # Count(q, p[i])}

Why ==
  LET a == ProjAll(P.a, P.mode, P.f, P.mapa)
      b == ProjAll(P.b, P.mode, P.f, P.mapb)
      ma == Missing(a, b)
      mb == Missing(b, a)
  IN IF ma = {} /\ mb = {} /\ Len(a) = Len(b) THEN <<"same">>
     ELSE IF ma # {} THEN <<"differ", "a", a[CHOOSE i \in ma : \A j \in ma : i <= j]>>
     ELSE IF mb # {} THEN <<"differ", "b", b[CHOOSE i \in mb : \A j \in mb : i <= j]>>
     ELSE <<"differ", "length", <<>>>>

PNext == k = 0 /\ Why[1] = "same" /\ k' = 1 /\ UNCHANGED pid
PSpec == PInit /\ [][PNext]_pvars
Report == IF k = 1 THEN PrintT(<<"ACC", pid>>)
          ELSE IF Why[1] # "same" THEN PrintT("AT|" \o ToString(pid) \o "|" \o ToString(1) \o "|" \o P.mode \o "|" \o "events-differ") /\ PrintT(<<"DIFF", pid, Why>>)
          ELSE TRUE
=============================================================================
