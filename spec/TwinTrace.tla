----------------------------- MODULE TwinTrace -----------------------------
(***************************************************************************)
(* Metamorphic pairs of real runs, decided by TLC.                         *)
(*  mode "flip" (C06): the same scenario run twice, a non-critical job f   *)
(*    returning in run a and raising in run b.  Every event of every other *)
(*    job, every scheduler event, every verdict, every time must be the    *)
(*    same; for f itself only "returned" vs "raised" (and its result /     *)
(*    exception in the predicate samples) may differ.                      *)
(*  mode "flat" (C10): a tree whose nested schedulers are critical, without*)
(*    window, timeout or forever jobs, and its flattened graph: every      *)
(*    atomic job starts, ends, raises or is cancelled at the same times,   *)
(*    and the top-level verdict is the same.                               *)
(* Events of one instant are compared as a multiset (the order inside an   *)
(* instant may shift by a loop iteration).                                 *)
(***************************************************************************)
EXTENDS Integers, Sequences, FiniteSets, TLC, Json, IOUtils, TLCExt

Pairs == JsonDeserialize(IOEnv.TRACE_FILE)

VARIABLES pid, k
pvars == <<pid, k>>
PInit == pid \in 1..Len(Pairs) /\ k = 0
P == Pairs[pid]

(* projection of one event; <<>> = dropped *)
MaskSnap(sn, f) == [i \in 1..Len(sn) |-> IF i = f - 1 THEN <<sn[i][1], "masked", 0>> ELSE sn[i]]
ProjFlip(e, f) ==
  IF e.k = "snap" THEN <<e.t, "snap", 0, "-", 0, MaskSnap(e.sn, f)>>
  ELSE IF e.k \in {"end", "raise"} /\ e.n = f THEN <<e.t, "fin", f, "-", 0, <<>>>>
  ELSE <<e.t, e.k, e.n, e.v, e.i, <<>>>>

JobEvents == {"start", "end", "raise", "cancel", "cancel-done"}
(* a job that starts and is cancelled within one instant has not run: in a *)
(* tie between a failure and the completion that releases it, the nested   *)
(* tree may still start it (cancellation travels one level per wake-up)    *)
(* where the flat graph does not                                           *)
ZeroRun(ev, n) == \E i, j \in 1..Len(ev) : /\ ev[i].k = "start" /\ ev[i].n = n
                                            /\ ev[j].k = "cancel-done" /\ ev[j].n = n /\ ev[i].t = ev[j].t
ProjFlat(e, map, ev) ==
  IF e.k \in JobEvents /\ ZeroRun(ev, e.n) THEN <<>>
  ELSE IF e.k \in JobEvents THEN <<e.t, e.k, map[e.n], "-", 0, <<>>>>
  ELSE IF e.k = "top" THEN <<e.t, "top", 1, e.v, IF e.i > 0 THEN map[e.i] ELSE e.i, <<>>>>
  ELSE <<>>

ProjAll(ev, mode, f, map) ==
  LET q == [i \in 1..Len(ev) |-> IF mode = "flip" THEN ProjFlip(ev[i], f) ELSE ProjFlat(ev[i], map, ev)]
  IN SelectSeq(q, LAMBDA x : x # <<>>)

Count(q, x) == Cardinality({i \in 1..Len(q) : q[i] = x})
Missing(p, q) == {i \in 1..Len(p) : Count(p, p[i]) # Count(q, p[i])}

Why ==
  LET a == ProjAll(P.a, P.mode, P.f, P.mapa)
      b == ProjAll(P.b, P.mode, P.f, P.mapb)
      ma == Missing(a, b)
      mb == Missing(b, a)
  IN IF ma = {} /\ mb = {} /\ Len(a) = Len(b) THEN <<"same">>
     ELSE IF ma # {} THEN <<"differ", "a", a[CHOOSE i \in ma : \A j \in ma : i <= j]>>
     ELSE IF mb # {} THEN <<"differ", "b", b[CHOOSE i \in mb : \A j \in mb : i <= j]>>
     ELSE <<"differ", "length", <<>>>>

PNext == k = 0 /\ Why[1] = "same" /\ k' = 1 /\ UNCHANGED pid
PSpec == PInit /\ [][PNext]_pvars
Report == IF k = 1 THEN PrintT(<<"ACC", pid>>)
          ELSE IF Why[1] # "same" THEN PrintT(<<"AT", pid, 1, P.mode, "events-differ">>) /\ PrintT(<<"DIFF", pid, Why>>)
          ELSE TRUE
=============================================================================
