SPECIFICATION SpecDigraphs
CONSTANT K = 4
INVARIANT T_Topo
CHECK_DEADLOCK FALSE
