SPECIFICATION GSpec
CONSTRAINT Report
CHECK_DEADLOCK FALSE
