------------------------------ MODULE MC_Graph ------------------------------
(***************************************************************************)
(* Design-level theorems about the graph operations, checked by TLC over   *)
(* ALL graphs of a bound (one initial state per graph, no transitions):    *)
(*  - the marking algorithm of topological_order() succeeds iff the graph  *)
(*    is acyclic (all digraphs on K nodes, self-loops included);           *)
(*  - bypass_and_remove(j) removes exactly j and preserves must-run-before *)
(*    among the others (all DAGs on K nodes, every j);                     *)
(*  - keep_only_between keeps exactly the documented subset with the       *)
(*    original requirements among kept jobs, and preserves closedness and  *)
(*    acyclicity (all DAGs on K nodes, every starts/ends of size <= 2);    *)
(*  - sanitize() is idempotent, closes the relation in the whole tree,     *)
(*    removes only dangling edges, and reports truthfully (nested tree     *)
(*    with every placement of up to two arbitrary extra edges).            *)
(***************************************************************************)
EXTENDS Graph

CONSTANT K           \* number of jobs in the flat scheduler

VARIABLE G
\* flat universe: object 1 is the scheduler, 2..K+1 its jobs
UF == [n |-> K + 1, kind |-> [x \in 1..(K + 1) |-> IF x = 1 THEN "sched" ELSE "job"],
       forever |-> [x \in 1..(K + 1) |-> FALSE]]
JobsF == 2..(K + 1)

FlatOf(R) == [mem |-> [x \in 1..(K + 1) |-> IF x = 1 THEN JobsF ELSE {}],
              req |-> [x \in 1..(K + 1) |-> IF x = 1 THEN {} ELSE R[x]]]

InitDigraphs == \E R \in [JobsF -> SUBSET JobsF] : G = FlatOf(R)
(* every DAG is isomorphic to one whose edges go from lower to higher ids  *)
RECURSIVE DagReqs(_)
(* all requirement functions on 2..j+1 whose edges go from higher to lower ids *)
DagReqs(j) == IF j = 0 THEN {[x \in {} |-> {}]}
              ELSE {[y \in (DOMAIN f) \cup {j + 1} |-> IF y = j + 1 THEN s ELSE f[y]] :
                       f \in DagReqs(j - 1), s \in SUBSET (2..j)}
InitDags == \E R \in DagReqs(K) : G = FlatOf(R)
Stay == UNCHANGED G
SpecDigraphs == InitDigraphs /\ [][Stay]_G
SpecDags     == InitDags /\ [][Stay]_G

-----------------------------------------------------------------------------
T_Topo == Scannable(G, 1) <=> Acyclic(G, 1)

T_Bypass ==
  \A j \in JobsF :
    LET H == BypassF(G, 1, j) IN
      /\ H.mem[1] = JobsF \ {j}
      /\ \A a, b \in H.mem[1] : Before(H, 1, a, b) <=> Before(G, 1, a, b)
      /\ Closed(H, 1) /\ Acyclic(H, 1)
      /\ \A x \in Objs(UF) \ {1} : x \notin H.mem[1] \/ j \notin H.req[x]

Small == {A \in SUBSET JobsF : Cardinality(A) <= 2}
T_Keep ==
  \A St \in Small : \A En \in Small : \A ks \in BOOLEAN : \A ke \in BOOLEAN :
    LET H == KeepBetweenF(UF, G, 1, St, En, ks, ke)
        keep == KeptBetween(G, 1, St, En, ks, ke)
    IN /\ H.mem[1] = keep
       /\ \A x \in keep : H.req[x] = G.req[x] \cap keep
       /\ \A x \in JobsF \ keep : H.req[x] = G.req[x]
       /\ Closed(H, 1) /\ Acyclic(H, 1)
       \* the documented subset: downstream of a start and upstream of an end
       /\ \A x \in JobsF \ (St \cup En) :
             x \in keep <=> /\ (St = {} \/ \E a \in St : Before(G, 1, a, x))
                            /\ (En = {} \/ \E b \in En : Before(G, 1, x, b))

T_KeepOnly ==
  \A R \in SUBSET JobsF :
    LET H == KeepOnlyF(UF, G, 1, R) IN
      /\ H.mem[1] = R
      /\ \A x \in R : H.req[x] = G.req[x] \cap R
      /\ Closed(H, 1) /\ Acyclic(H, 1)

-----------------------------------------------------------------------------
(* nested tree for sanitize: 1 = top scheduler {2, 3, 4}, 4 = nested        *)
(* scheduler {5, 6, 7}, 7 = nested scheduler {8}, 9 = a job of no scheduler  *)
UN == [n |-> 9, kind |-> [x \in 1..9 |-> IF x \in {1, 4, 7} THEN "sched" ELSE "job"],
       forever |-> [x \in 1..9 |-> FALSE]]
MemN == [x \in 1..9 |-> CASE x = 1 -> {2, 3, 4} [] x = 4 -> {5, 6, 7} [] x = 7 -> {8} [] OTHER -> {}]
BaseReq == [x \in 1..9 |-> CASE x = 3 -> {2} [] x = 4 -> {3} [] x = 6 -> {5} [] x = 7 -> {6} [] OTHER -> {}]
Edges == {e \in (2..9) \X (2..9) : e[1] # e[2]}
UpToTwo == {{}} \cup {{e} : e \in Edges} \cup {{e, f} : e \in Edges, f \in Edges}
InitNested == \E X \in UpToTwo :
                 /\ G = [mem |-> MemN, req |-> [x \in 1..9 |-> BaseReq[x] \cup {e[2] : e \in {d \in X : d[1] = x}}]]
SpecNested == InitNested /\ [][Stay]_G

OwnerOf(x) == IF \E s \in {1, 4, 7} : x \in MemN[s] THEN CHOOSE s \in {1, 4, 7} : x \in MemN[s] ELSE 0
T_Sanitize ==
  LET H == SanitizeF(UN, G, 1) IN
    /\ H.mem = G.mem
    /\ ClosedDeep(UN, H, 1)
    /\ SanitizeF(UN, H, 1) = H /\ SanitizeRet(UN, H, 1)
    /\ \A x \in 2..8 : H.req[x] = G.req[x] \cap MemN[OwnerOf(x)]
    /\ H.req[9] = G.req[9]
    /\ SanitizeRet(UN, G, 1) <=> ClosedDeep(UN, G, 1)

=============================================================================
