SPECIFICATION SpecDags
CONSTANT K = 4
INVARIANT T_Topo
INVARIANT T_Bypass
INVARIANT T_Keep
INVARIANT T_KeepOnly
CHECK_DEADLOCK FALSE
