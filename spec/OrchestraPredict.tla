--------------------------- MODULE OrchestraPredict ---------------------------
(***************************************************************************)
(* Outcome prediction: for each scripted scenario of TRACE_FILE, explore    *)
(* Orchestra exhaustively (every interleaving inside every instant, every  *)
(* tie) and print the outcome summary of each terminal state.  The set of  *)
(* printed summaries is what the specification allows for that scenario;   *)
(* the summary of the real run must be one of them.  This binding does not *)
(* use the event mapping of OrchestraTrace: it compares outcomes only      *)
(* (per node: start time, end time, final state, result / exception        *)
(* origin, cause of the run's end, fate of its co_shutdown()).             *)
(* Every runtime property is also checked as an invariant on the way       *)
(* (scripted-mode model checking of the very scenarios the real code ran). *)
(***************************************************************************)
EXTENDS OrchestraProps, Json, IOUtils, TLCExt

Scen == JsonDeserialize(IOEnv.TRACE_FILE)

VARIABLE sid
pvars == <<cfg, S, sid>>

PInit == \E i \in 1..Len(Scen) : sid = i /\ cfg = CfgOf(Scen[i].cfg) /\ S = InitS(cfg)
PNext == UNCHANGED sid /\ Next
PSpec == PInit /\ [][PNext]_pvars

StCode(X, n) == IF X.nstart[n] = 0 THEN 0
                ELSE CASE X.st[n] = "ok" -> 1 [] X.st[n] = "exc" -> 2 [] X.st[n] = "cancelled" -> 3 [] X.st[n] = "selfc" -> 4 [] OTHER -> 9
ResCode(X, n) == CASE X.res[n][1] = "ret" -> <<1, X.res[n][2]>>
                   [] X.res[n][1] = "exc" -> <<2, X.res[n][2]>>
                   [] X.res[n][1] = "true" -> <<3, 0>>
                   [] X.res[n][1] = "false" -> <<4, 0>>
                   [] OTHER -> <<0, 0>>
CauseCode(C, X, n) == IF ~IsSched(C, n) \/ X.nstart[n] = 0 THEN 0
                      ELSE CASE X.cause[n] = "success" -> 1 [] X.cause[n] = "timeout" -> 2
                             [] X.cause[n] = "critical" -> 3 [] X.cause[n] = "cancelled" -> 4 [] OTHER -> 0
ShCode(C, X, n) == IF IsSched(C, n) THEN 0
                   ELSE CASE X.sh[n] = "done" -> 1 [] X.sh[n] = "cancelled" -> 2 [] X.sh[n] = "none" -> 0 [] OTHER -> 9
SummaryOf(C, X) ==
  [n \in 1..C.n |-> <<X.t0[n], IF X.nstart[n] = 0 THEN -1 ELSE X.te[n], StCode(X, n),
                      ResCode(X, n)[1], ResCode(X, n)[2], CauseCode(C, X, n), ShCode(C, X, n)>>]

Report == /\ IF Terminated(cfg, S) /\ S.xs = "none" THEN PrintT("OUT|" \o ToString(sid) \o "|" \o ToString(SummaryOf(cfg, S))) ELSE TRUE
          \* can the specification hang on this scenario ? (used to judge a real run that hangs
          \* outside the hypothesis of C03)
          /\ IF Stuck(cfg, S) THEN PrintT("STUCK|" \o ToString(sid)) ELSE TRUE

Inv_C01 == C01(cfg, S)
Inv_C02 == C02(cfg, S)
Inv_C03 == Admissible(cfg) => C03(cfg, S)
Inv_C04 == C04(cfg, S)
Inv_C05 == C05(cfg, S)
Inv_C07 == C07(cfg, S)
Inv_C08 == C08(cfg, S)
Inv_C09 == C09(cfg, S)
Inv_C10 == C10(cfg, S)
Inv_C11 == C11(cfg, S)
Inv_C12 == C12(cfg, S) /\ C12Tick(cfg, S)
Inv_C13 == C13(cfg, S)
Inv_C14 == C14(cfg, S)
=============================================================================
