------------------------------ MODULE DotTrace ------------------------------
(***************************************************************************)
(* Decides, for each recorded (tree, dot_format() observation, list()      *)
(* observation), whether the rendering is faithful (Dot.tla).  One initial *)
(* state per case; the verdict is printed.                                 *)
(***************************************************************************)
EXTENDS Dot, Json, IOUtils, TLCExt

Cases == JsonDeserialize(IOEnv.TRACE_FILE)

VARIABLES cid, k
dvars == <<cid, k>>

DInit == cid \in 1..Len(Cases) /\ k = 0
Case  == Cases[cid]
TreeOf(c) == c.tree

DotPart == IF Case.listonly THEN "" ELSE DotWhy(Case.tree, Case.status, Case.obs)
Why == IF DotPart # "" THEN DotPart ELSE ListWhy(Case.tree, Case.lst)

DNext == k = 0 /\ Why = "" /\ k' = 1 /\ UNCHANGED cid
DSpec == DInit /\ [][DNext]_dvars

Report == IF k = 1 THEN PrintT(<<"ACC", cid>>)
          ELSE IF Why # "" THEN PrintT("AT|" \o ToString(cid) \o "|1|"
                                        \o (IF DotPart # "" THEN "dot" ELSE "list")
                                        \o "|" \o Why)
          ELSE TRUE
=============================================================================
