------------------------------- MODULE Build -------------------------------
(***************************************************************************)
(* The construction API of asynciojobs (job.py, sequence.py,               *)
(* purescheduler.py, scheduler.py): constructors with required= and        *)
(* scheduler=, Sequence and Sequence.append(), requires() with arbitrarily *)
(* nested arguments and remove=True, add() / update() / remove().          *)
(*                                                                         *)
(* Objects are 1..N; kind[i] is "job" | "sched" (nestable Scheduler, also  *)
(* a job) | "pure" (PureScheduler) | "seq" (Sequence).                     *)
(* State B:                                                                *)
(*   made      objects created so far                                      *)
(*   req[j]    requirements of a job-like object                           *)
(*   mem[p]    members of a scheduler                                      *)
(*   seq[q]    the jobs of a Sequence, in order                            *)
(*   ssch[q]   the scheduler a Sequence was created with (0 = none)        *)
(* Argument trees (JSON): [t |-> "none"] | [t |-> "obj", id |-> i] |       *)
(*   [t |-> "list" | "tuple" | "set", items |-> <<trees>>]                 *)
(***************************************************************************)
EXTENDS Integers, FiniteSets, Sequences, TLC

JobLike(K, i) == K[i] \in {"job", "sched"}
IsSeq(K, i)   == K[i] = "seq"

RECURSIVE Concat(_)
Concat(ss) == IF ss = <<>> THEN <<>> ELSE Head(ss) \o Concat(Tail(ss))
SetOf(q)   == {q[i] : i \in 1..Len(q)}
Distinct(q) == Cardinality(SetOf(q)) = Len(q)

(* the jobs named by a requirement argument, in order: a sequence stands   *)
(* for its last job (an empty one for nothing), None for nothing,          *)
(* collections are flattened at any depth                                  *)
RECURSIVE TargetList(_, _, _)
TargetList(K, B, a) ==
  CASE a.t = "none" -> <<>>
    [] a.t = "obj"  -> IF IsSeq(K, a.id)
                       THEN (IF B.seq[a.id] = <<>> THEN <<>> ELSE <<B.seq[a.id][Len(B.seq[a.id])]>>)
                       ELSE <<a.id>>
    [] OTHER -> Concat([i \in 1..Len(a.items) |-> TargetList(K, B, a.items[i])])
Targets(K, B, a)  == SetOf(TargetList(K, B, a))
TargetsAll(K, B, as) == UNION {Targets(K, B, as[i]) : i \in 1..Len(as)}
TargetListAll(K, B, as) == Concat([i \in 1..Len(as) |-> TargetList(K, B, as[i])])

(* the flattened job list of Sequence / scheduler arguments: jobs and      *)
(* sequences only, one level; None and anything else is ignored            *)
FlatOne(K, B, a) ==
  IF a.t = "obj" THEN (IF IsSeq(K, a.id) THEN B.seq[a.id] ELSE <<a.id>>) ELSE <<>>
Flat(K, B, as) == Concat([i \in 1..Len(as) |-> FlatOne(K, B, as[i])])

(* x.requires(...): add; a job never requires itself                       *)
AddReq(B, x, T) == [B EXCEPT !.req[x] = @ \cup (T \ {x})]
(* chain the jobs of q: each requires its predecessor                      *)
RECURSIVE Chain(_, _)
Chain(B, q) == IF Len(q) < 2 THEN B ELSE Chain(AddReq(B, q[2], {q[1]}), Tail(q))

Join(B, p, T) == IF p = 0 THEN B ELSE [B EXCEPT !.mem[p] = @ \cup T]

-----------------------------------------------------------------------------
(* statements; each returns <<exception, new state, exact?>>               *)
NewJob(K, B, st) ==
  LET B1 == [B EXCEPT !.made = @ \cup {st.id}, !.req[st.id] = Targets(K, B, st.req) \ {st.id}]
  IN <<"none", Join(B1, st.sched, {st.id}), TRUE>>

NewSched(K, B, st) ==
  LET B1 == [B EXCEPT !.made = @ \cup {st.id}, !.mem[st.id] = SetOf(Flat(K, B, st.args)),
                      !.req[st.id] = IF K[st.id] = "sched" THEN Targets(K, B, st.req) \ {st.id} ELSE {}]
  IN <<"none", IF K[st.id] = "sched" THEN Join(B1, st.sched, {st.id}) ELSE B1, TRUE>>

NewSeq(K, B, st) ==
  LET jobs == Flat(K, B, st.args)
      B1 == Chain([B EXCEPT !.made = @ \cup {st.id}, !.seq[st.id] = jobs, !.ssch[st.id] = st.sched], jobs)
      B2 == IF jobs = <<>> THEN B1 ELSE AddReq(B1, jobs[1], Targets(K, B, st.req))
  IN <<"none", Join(B2, st.sched, SetOf(jobs)), TRUE>>

SeqAppendSt(K, B, st) ==
  LET new == Flat(K, B, st.args)
      old == B.seq[st.id]
      link == (IF old = <<>> THEN <<>> ELSE <<old[Len(old)]>>) \o new
  IN IF new = <<>> THEN <<"none", B, TRUE>>
     ELSE <<"none", Join(Chain([B EXCEPT !.seq[st.id] = old \o new], link), B.ssch[st.id], SetOf(new)), TRUE>>

Requires(K, B, st) ==
  LET x == st.id
      tl == TargetListAll(K, B, st.args)
  IN IF ~st.flag THEN <<"none", AddReq(B, x, SetOf(tl)), TRUE>>
     ELSE IF Distinct(tl) /\ SetOf(tl) \subseteq B.req[x]
          THEN <<"none", [B EXCEPT !.req[x] = @ \ SetOf(tl)], TRUE>>
          ELSE <<"KeyError", B, FALSE>>

SeqRequires(K, B, st) ==
  LET q == B.seq[st.id] IN
  IF q = <<>> THEN <<"none", B, TRUE>>
  ELSE <<"none", AddReq(B, q[1], TargetsAll(K, B, st.args)), TRUE>>

Add(K, B, st)    == <<"none", Join(B, st.id, SetOf(Flat(K, B, st.args))), TRUE>>
Remove(K, B, st) == IF st.x \in B.mem[st.id] THEN <<"none", [B EXCEPT !.mem[st.id] = @ \ {st.x}], TRUE>>
                    ELSE <<"KeyError", B, TRUE>>

Effect(K, B, st) ==
  CASE st.op = "newjob"      -> NewJob(K, B, st)
    [] st.op = "newsched"    -> NewSched(K, B, st)
    [] st.op = "newseq"      -> NewSeq(K, B, st)
    [] st.op = "append"      -> SeqAppendSt(K, B, st)
    [] st.op = "requires"    -> Requires(K, B, st)
    [] st.op = "seqrequires" -> SeqRequires(K, B, st)
    [] st.op \in {"add", "update"} -> Add(K, B, st)
    [] st.op = "remove"      -> Remove(K, B, st)
    [] OTHER -> <<"unknown-op", B, TRUE>>

InitB(N) == [made |-> {}, req |-> [i \in 1..N |-> {}], mem |-> [i \in 1..N |-> {}],
             seq |-> [i \in 1..N |-> <<>>], ssch |-> [i \in 1..N |-> 0]]

(* whatever the API builds: no job requires itself                         *)
WellBuilt(K, B) == \A j \in B.made : JobLike(K, j) => j \notin B.req[j]

=============================================================================
