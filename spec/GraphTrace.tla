----------------------------- MODULE GraphTrace -----------------------------
(***************************************************************************)
(* Validates histories of graph API calls recorded from the real classes   *)
(* (harness/graphdrv.py) against Graph.tla: every step must be the         *)
(* specification's action (same exception behaviour, same return value,    *)
(* same successor state: members of every scheduler, requirements of every *)
(* object), and every query must return the specification's value.         *)
(* Batch mode: one initial state per history; a history is accepted iff    *)
(* k reaches the number of its steps; the frontier prints the failing      *)
(* clause.                                                                 *)
(***************************************************************************)
EXTENDS Graph, Json, IOUtils, TLCExt

Hist == JsonDeserialize(IOEnv.TRACE_FILE)

SetOf(q) == {q[i] : i \in 1..Len(q)}
NoDup(q) == Cardinality(SetOf(q)) = Len(q)
StateOf(J, n) == [mem |-> [x \in 1..n |-> SetOf(J.mem[x])], req |-> [x \in 1..n |-> SetOf(J.req[x])]]

VARIABLES hid, k, G
gvars == <<hid, k, G>>

H  == Hist[hid]
U  == H.U
NS == Len(H.steps)
St == H.steps[k + 1]

GInit == /\ hid \in 1..Len(Hist)
         /\ k = 0
         /\ G = StateOf(Hist[hid].init, Hist[hid].U.n)

-----------------------------------------------------------------------------
(* expected effect of an edit step st in state X:                          *)
(*  <<exception, return value, successor state, exact?>>                   *)
Expected(X, st) ==
  LET s == st.s  x == st.x  A == SetOf(st.A)  B == SetOf(st.B) IN
  CASE st.op = "requires" ->
         IF RequiresRaises(X, x, A, st.f1) THEN <<"KeyError", "none", X, FALSE>>
         ELSE <<"none", "self", RequiresF(X, x, A, st.f1), TRUE>>
    [] st.op = "add"    -> <<"none", "arg", AddF(X, s, {x}), TRUE>>
    [] st.op = "update" -> <<"none", "self", AddF(X, s, A), TRUE>>
    [] st.op = "remove" ->
         IF RemoveRaises(X, s, x) THEN <<"KeyError", "none", X, TRUE>>
         ELSE <<"none", "self", RemoveF(X, s, x), TRUE>>
    [] st.op = "sanitize" ->
         <<"none", IF SanitizeRet(U, X, s) THEN "true" ELSE "false", SanitizeF(U, X, s), TRUE>>
    [] st.op = "bypass" ->
         IF BypassRaises(X, s, x) THEN <<"ValueError", "none", X, TRUE>>
         ELSE <<"none", "none", BypassF(X, s, x), TRUE>>
    [] st.op = "keep_only" -> <<"none", "none", KeepOnlyF(U, X, s, A), TRUE>>
    [] st.op = "keep_between" -> <<"none", "none", KeepBetweenF(U, X, s, A, B, st.f1, st.f2), TRUE>>
    [] st.op \in {"query", "display", "scan"} -> <<"none", "none", X, TRUE>>
    [] OTHER -> <<"unknown-op", "none", X, TRUE>>

(* first failing clause of the edit part of step st, "" if none            *)
EditWhy(X, st) ==
  LET e == Expected(X, st)
      post == StateOf(st.post, U.n)
  IN IF st.exc # e[1] THEN "exception"
     ELSE IF st.ret # e[2] THEN "return-value"
     ELSE IF e[4] /\ post.mem # e[3].mem THEN "members"
     ELSE IF e[4] /\ post.req # e[3].req THEN "requirements"
     ELSE IF ~e[4] /\ ~(/\ post.mem = X.mem
                        /\ \A y \in 1..U.n : y # st.x => post.req[y] = X.req[y]
                        /\ post.req[st.x] \subseteq X.req[st.x]
                        /\ (X.req[st.x] \ SetOf(st.A)) \subseteq post.req[st.x]) THEN "partial-removal"
     ELSE ""

(* first failing clause of the query part (values on the post state P)     *)
QueryWhy(P, st) ==
  LET s == st.qs  q == st.q  A == SetOf(st.qA)
      closed == ClosedDeep(U, P, s)     \* cycle detection and ordering are specified for closed schedulers
  IN
  IF q.len # Cardinality(P.mem[s]) THEN "len"
  ELSE IF closed /\ q.ccexc # "none" THEN "check-cycles-raises"
  ELSE IF closed /\ q.cc # CheckCycles(U, P, s) THEN "check-cycles"
  ELSE IF closed /\ Acyclic(P, s) /\ (q.topoexc # "none" \/ ~IsLinearExtension(P, s, q.topo)) THEN "topological-order"
  ELSE IF closed /\ ~Acyclic(P, s) /\ q.topoexc = "none" THEN "topological-order-no-raise"
  ELSE IF closed /\ Acyclic(P, s) /\ (q.topo_xexc # "none" \/ ~IsLinearExtension(P, s, q.topo_x)) THEN "topological-order-interleaved"
  ELSE IF ~NoDup(q.entry) \/ SetOf(q.entry) # Entry(P, s) THEN "entry-jobs"
  ELSE IF ~NoDup(q.exit_t) \/ SetOf(q.exit_t) # Exit(U, P, s, TRUE) THEN "exit-jobs"
  ELSE IF ~NoDup(q.exit_f) \/ SetOf(q.exit_f) # Exit(U, P, s, FALSE) THEN "exit-jobs-forever"
  ELSE IF A # {} /\ A \subseteq P.mem[s] /\ (~NoDup(q.pred) \/ SetOf(q.pred) # Pred(P, s, A)) THEN "predecessors"
  ELSE IF A # {} /\ A \subseteq P.mem[s] /\ (~NoDup(q.succ) \/ SetOf(q.succ) # Succ(P, s, A)) THEN "successors"
  ELSE IF A # {} /\ A \subseteq P.mem[s] /\ (~NoDup(q.up) \/ SetOf(q.up) # Up(P, s, A)) THEN "upstream"
  ELSE IF A # {} /\ A \subseteq P.mem[s] /\ (~NoDup(q.down) \/ SetOf(q.down) # Down(P, s, A)) THEN "downstream"
  ELSE IF ~NoDup(q.iter_f) \/ SetOf(q.iter_f) # IterateJobs(U, P, s, FALSE) THEN "iterate-jobs"
  ELSE IF ~NoDup(q.iter_t) \/ SetOf(q.iter_t) # IterateJobs(U, P, s, TRUE) THEN "iterate-jobs-schedulers"
  ELSE IF ~NoDup(q.iter_x) \/ SetOf(q.iter_x) # IterateJobs(U, P, s, TRUE) THEN "iterate-jobs-interleaved"
  ELSE ""

StepWhy(X, st) ==
  LET w == EditWhy(X, st) IN
  IF w # "" THEN w
  ELSE IF st.qs # 0 THEN QueryWhy(StateOf(st.post, U.n), st) ELSE ""

GNext == /\ k < NS
         /\ StepWhy(G, St) = ""
         /\ G' = StateOf(St.post, U.n)
         /\ k' = k + 1
         /\ UNCHANGED hid
GSpec == GInit /\ [][GNext]_gvars

Report == IF k = NS THEN PrintT(<<"ACC", hid>>)
          ELSE IF StepWhy(G, St) # "" THEN PrintT("AT|" \o ToString(hid) \o "|" \o ToString(k + 1) \o "|" \o St.op \o "|" \o StepWhy(G, St))
          ELSE TRUE

=============================================================================
