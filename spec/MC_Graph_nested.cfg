SPECIFICATION SpecNested
CONSTANT K = 1
INVARIANT T_Sanitize
CHECK_DEADLOCK FALSE
