------------------------------- MODULE Graph -------------------------------
(***************************************************************************)
(* The requirement graph of a scheduler tree and the API calls that query  *)
(* and edit it (asynciojobs/purescheduler.py, scheduler.py, job.py):       *)
(* check_cycles, topological_order, entry/exit jobs, neighbour and closure *)
(* queries, iterate_jobs, sanitize, bypass_and_remove, keep_only,          *)
(* keep_only_between, requires, add / update / remove.                     *)
(*                                                                         *)
(* Static part U (the universe of objects):                                *)
(*   n            objects are 1..n                                         *)
(*   kind[x]      "job" | "sched" | "pure"   (pure: PureScheduler, no job) *)
(*   forever[x]                                                            *)
(* State G:                                                                *)
(*   mem[s]       members of scheduler s (empty for jobs)                  *)
(*   req[x]       objects x requires (may point anywhere: unclosed graphs  *)
(*                are states too)                                          *)
(***************************************************************************)
EXTENDS Integers, FiniteSets, Sequences, TLC

Objs(U)        == 1..U.n
IsS(U, x)      == U.kind[x] \in {"sched", "pure"}
Nestable(U, x) == U.kind[x] = "sched"

-----------------------------------------------------------------------------
(* queries                                                                 *)

(* members that x directly requires / that directly require x              *)
Pred(G, s, A) == {y \in G.mem[s] : \E a \in A : y \in G.req[a]}
Succ(G, s, A) == {y \in G.mem[s] : \E a \in A : a \in G.req[y]}

RECURSIVE UpFix(_, _, _)
UpFix(G, s, R) == LET R2 == R \cup Pred(G, s, R) IN IF R2 = R THEN R ELSE UpFix(G, s, R2)
RECURSIVE DownFix(_, _, _)
DownFix(G, s, R) == LET R2 == R \cup Succ(G, s, R) IN IF R2 = R THEN R ELSE DownFix(G, s, R2)

(* reachable through one or more links, inside scheduler s                 *)
Up(G, s, A)   == UpFix(G, s, Pred(G, s, A))
Down(G, s, A) == DownFix(G, s, Succ(G, s, A))

Entry(G, s) == {x \in G.mem[s] : G.req[x] = {}}
Exit(U, G, s, discardForever) ==
  {x \in G.mem[s] : /\ ~(discardForever /\ U.forever[x])
                    /\ ~\E y \in G.mem[s] : x \in G.req[y]}

(* closedness: every requirement of a member is a member of the same scheduler *)
Closed(G, s) == \A x \in G.mem[s] : G.req[x] \subseteq G.mem[s]
RECURSIVE ClosedDeep(_, _, _)
ClosedDeep(U, G, s) == Closed(G, s) /\ \A c \in G.mem[s] : IsS(U, c) => ClosedDeep(U, G, c)

(* acyclicity of one level: no member reaches itself                       *)
Acyclic(G, s) == \A x \in G.mem[s] : x \notin Up(G, s, {x})
RECURSIVE AcyclicDeep(_, _, _)
AcyclicDeep(U, G, s) == Acyclic(G, s) /\ \A c \in G.mem[s] : Nestable(U, c) => AcyclicDeep(U, G, c)

(* what check_cycles() must answer: one level for a PureScheduler, the     *)
(* whole tree for a nestable Scheduler                                     *)
CheckCycles(U, G, s) == IF U.kind[s] = "pure" THEN Acyclic(G, s) ELSE AcyclicDeep(U, G, s)

(* the marking algorithm of topological_order(), as a fixed point: the set *)
(* of members that eventually get marked                                   *)
RECURSIVE MarkFix(_, _, _)
MarkFix(G, s, M) ==
  LET M2 == M \cup {x \in G.mem[s] : (G.req[x] \cap G.mem[s]) \subseteq M}
  IN IF M2 = M THEN M ELSE MarkFix(G, s, M2)
Scannable(G, s) == MarkFix(G, s, {}) = G.mem[s]

(* a sequence is a valid answer of topological_order()                     *)
IsLinearExtension(G, s, q) ==
  /\ Len(q) = Cardinality(G.mem[s])
  /\ {q[i] : i \in 1..Len(q)} = G.mem[s]
  /\ \A i, j \in 1..Len(q) : q[j] \in G.req[q[i]] => j < i

(* every object of the tree below s, schedulers included on request        *)
RECURSIVE Below(_, _, _)
Below(U, G, s) == UNION {{c} \cup (IF IsS(U, c) THEN Below(U, G, c) ELSE {}) : c \in G.mem[s]}
IterateJobs(U, G, s, scanSchedulers) ==
  IF scanSchedulers THEN {s} \cup Below(U, G, s)
  ELSE {x \in Below(U, G, s) : ~IsS(U, x)}

(* must-run-before, among the members of s                                 *)
Before(G, s, a, b) == a \in Up(G, s, {b})

-----------------------------------------------------------------------------
(* edits: each returns the new state                                       *)

(* x.requires(A) / x.requires(A, remove=True); a job never requires itself *)
RequiresF(G, x, A, remove) ==
  IF remove THEN [G EXCEPT !.req[x] = @ \ A] ELSE [G EXCEPT !.req[x] = @ \cup (A \ {x})]
RequiresRaises(G, x, A, remove) == remove /\ ~(A \subseteq G.req[x])

AddF(G, s, A)      == [G EXCEPT !.mem[s] = @ \cup A]
RemoveF(G, s, x)   == [G EXCEPT !.mem[s] = @ \ {x}]
RemoveRaises(G, s, x) == x \notin G.mem[s]

(* sanitize(): close the relation, in s and in every nested scheduler      *)
RECURSIVE SanitizeF(_, _, _)
SanitizeF(U, G, s) ==
  LET G1 == [G EXCEPT !.req = [x \in DOMAIN G.req |->
                                 IF x \in G.mem[s] THEN G.req[x] \cap G.mem[s] ELSE G.req[x]]]
      nested == {c \in G.mem[s] : IsS(U, c)}
      RECURSIVE Fold(_, _)
      Fold(H, T) == IF T = {} THEN H
                    ELSE LET c == CHOOSE c \in T : TRUE IN Fold(SanitizeF(U, H, c), T \ {c})
  IN Fold(G1, nested)
SanitizeRet(U, G, s) == SanitizeF(U, G, s) = G

(* bypass_and_remove(j): re-link around j, then drop it                    *)
BypassRaises(G, s, j) == j \notin G.mem[s]
BypassF(G, s, j) ==
  LET downs == {d \in G.mem[s] : j \in G.req[d]}
  IN [G EXCEPT !.req = [x \in DOMAIN G.req |->
                          IF x \in downs THEN (G.req[x] \cup (G.req[j] \ {x})) \ {j} ELSE G.req[x]],
               !.mem[s] = @ \ {j}]

(* keep_only(R)                                                            *)
KeepOnlyF(U, G, s, R) == SanitizeF(U, [G EXCEPT !.mem[s] = @ \cap R], s)

(* keep_only_between(starts, ends, keep_starts, keep_ends)                 *)
KeptBetween(G, s, St, En, ks, ke) ==
  LET down == IF St = {} THEN G.mem[s] ELSE Down(G, s, St)
      up   == IF En = {} THEN G.mem[s] ELSE Up(G, s, En)
  IN (down \cap up) \cup (IF ks THEN St ELSE {}) \cup (IF ke THEN En ELSE {})
KeepBetweenF(U, G, s, St, En, ks, ke) ==
  SanitizeF(U, [G EXCEPT !.mem[s] = KeptBetween(G, s, St, En, ks, ke)], s)

=============================================================================
