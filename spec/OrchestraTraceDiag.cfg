SPECIFICATION TSpec
CONSTRAINT Frontier
CHECK_DEADLOCK FALSE
