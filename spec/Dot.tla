-------------------------------- MODULE Dot --------------------------------
(***************************************************************************)
(* The abstract content of dot_format() and list() for a scheduler tree,   *)
(* and the judgement "the observed rendering describes the tree"           *)
(* (property C20).  The observation is produced by a strict DOT parser     *)
(* (harness/dotparse.py): TLA+ does not read text; lexical validity and    *)
(* un-quoting are decided there, structure and content here.               *)
(*                                                                         *)
(* Tree T: nodes 1..n (1 = top scheduler), kind, parent, req (siblings),   *)
(* crit, forever, label (code points, <<-1>> = no label), plus what the    *)
(* library answered: rid[i] (repr_id() of node i after dot_format()) and   *)
(* ridcps[i] (its code points).                                            *)
(***************************************************************************)
EXTENDS Integers, FiniteSets, Sequences, TLC

SetOf(q)  == {q[i] : i \in 1..Len(q)}
NoDup(q)  == Cardinality(SetOf(q)) = Len(q)

Inner(T)      == 2..T.n
Atomic(T, i)  == T.kind[i] = "job"
Atoms(T)      == {i \in Inner(T) : Atomic(T, i)}
Nesteds(T)    == {i \in Inner(T) : ~Atomic(T, i)}
ClusterOf(T, i)  == "cluster_" \o T.rid[i]
Enclosing(T, i)  == IF T.parent[i] = 1 THEN "" ELSE ClusterOf(T, T.parent[i])

RECURSIVE AtomsBelow(_, _)
AtomsBelow(T, s) == UNION {IF Atomic(T, k) THEN {k} ELSE AtomsBelow(T, k) : k \in {x \in Inner(T) : T.parent[x] = s}}

NOLABEL == <<78, 79, 76, 65, 66, 69, 76>>
(* the label shown: graph_label() when the job's class provides one; otherwise *)
(* "<id>: " followed by the label attribute, else text_label(), else NOLABEL  *)
ExpLabel(T, i) ==
  IF T.glabel[i] # <<-1>> THEN T.glabel[i]
  ELSE T.ridcps[i] \o <<58, 32>> \o (IF T.label[i] # <<-1>> THEN T.label[i]
                                      ELSE IF T.tlabel[i] # <<-1>> THEN T.tlabel[i] ELSE NOLABEL)

(* requirement pairs <<job, requirement>> of the whole tree                 *)
ReqPairs(T) == {<<j, r>> \in Inner(T) \X Inner(T) : r \in SetOf(T.req[j])}

(* edge e renders the requirement "j requires r"                           *)
Renders(T, e, j, r) ==
  /\ IF Atomic(T, r) THEN e.tail = T.rid[r] /\ e.ltail = ""
     ELSE e.ltail = ClusterOf(T, r) /\ \E a \in AtomsBelow(T, r) : e.tail = T.rid[a]
  /\ IF Atomic(T, j) THEN e.head = T.rid[j] /\ e.lhead = ""
     ELSE e.lhead = ClusterOf(T, j) /\ \E a \in AtomsBelow(T, j) : e.head = T.rid[a]

StyleOK(T, i, rec, rounded) ==
  /\ ("rounded" \in SetOf(rec.style)) <=> rounded
  /\ ("dashed" \in SetOf(rec.style)) <=> T.forever[i]
  /\ SetOf(rec.style) \subseteq {"rounded", "dashed"}
  /\ rec.shape = "box"
  /\ IF T.crit[i] THEN rec.color = "red" /\ rec.penwidth = "2"
     ELSE rec.color = "" /\ rec.penwidth = "0.5"

NodeOf(T, O, i)    == CHOOSE k \in 1..Len(O.nodes) : O.nodes[k].id = T.rid[i]
ClusterRec(T, O, i) == CHOOSE k \in 1..Len(O.clusters) : O.clusters[k].name = ClusterOf(T, i)

(* first failing clause of the DOT rendering, "" when it is faithful       *)
DotWhy(T, status, O) ==
  IF status = "raises" THEN "dot-format-raises"
  ELSE IF status = "syntax" THEN "syntax"
  ELSE IF \E i, j \in Inner(T) : i # j /\ T.rid[i] = T.rid[j] THEN "id-not-unique"
  ELSE IF \E i \in Inner(T) : T.rid[i] = "??" \/ T.rid[i] = "" THEN "id-missing"
  ELSE IF ~NoDup([k \in 1..Len(O.nodes) |-> O.nodes[k].id])
          \/ {O.nodes[k].id : k \in 1..Len(O.nodes)} # {T.rid[i] : i \in Atoms(T)}
          \/ \E k \in 1..Len(O.nodes) : ~O.nodes[k].explicit THEN "node-set"
  ELSE IF \E i \in Atoms(T) : O.nodes[NodeOf(T, O, i)].cluster # Enclosing(T, i) THEN "node-cluster"
  ELSE IF ~NoDup([k \in 1..Len(O.clusters) |-> O.clusters[k].name])
          \/ {O.clusters[k].name : k \in 1..Len(O.clusters)} # {ClusterOf(T, i) : i \in Nesteds(T)} THEN "cluster-set"
  ELSE IF \E i \in Nesteds(T) : O.clusters[ClusterRec(T, O, i)].parent # Enclosing(T, i) THEN "cluster-nesting"
  ELSE IF \E p \in ReqPairs(T) : Cardinality({k \in 1..Len(O.edges) : Renders(T, O.edges[k], p[1], p[2])}) # 1
       THEN "edge-missing-or-duplicated"
  ELSE IF \E k \in 1..Len(O.edges) : ~\E p \in ReqPairs(T) : Renders(T, O.edges[k], p[1], p[2]) THEN "edge-extra"
  ELSE IF \E k \in 1..Len(O.edges) : O.edges[k].nother # 0 THEN "edge-attributes"
  ELSE IF \E i \in Atoms(T) : ~StyleOK(T, i, O.nodes[NodeOf(T, O, i)], TRUE) THEN "node-style"
  ELSE IF \E i \in Nesteds(T) : ~StyleOK(T, i, O.clusters[ClusterRec(T, O, i)], FALSE) THEN "cluster-style"
  ELSE IF \E i \in Atoms(T) : O.nodes[NodeOf(T, O, i)].label # ExpLabel(T, i) THEN "node-label"
  ELSE IF \E i \in Nesteds(T) : O.clusters[ClusterRec(T, O, i)].label # ExpLabel(T, i) THEN "cluster-label"
  ELSE ""

-----------------------------------------------------------------------------
(* list(): one line per job, numbered in topological order                 *)
(* L.lines[k] = [node |-> tree node named by the line's label (0 = unknown),*)
(*               id |-> first field, end |-> TRUE for the closing line of a  *)
(*               nested scheduler, num |-> the id as a number (-1 if not),   *)
(*               reqs |-> ids shown in requires={...}]                       *)
RECURSIVE Depth(_, _)
Depth(T, i) == IF i = 1 THEN 0 ELSE 1 + Depth(T, T.parent[i])
Opening(L) == {k \in 1..Len(L.lines) : ~L.lines[k].end}
LineOf(L, i) == CHOOSE k \in Opening(L) : L.lines[k].node = i
NumOf(L, i)  == L.lines[LineOf(L, i)].num
RECURSIVE Below(_, _)
Below(T, s) == UNION {{k} \cup (IF Atomic(T, k) THEN {} ELSE Below(T, k)) : k \in {x \in Inner(T) : T.parent[x] = s}}

ListWhy(T, L) ==
  IF L.status = "raises" THEN "list-raises"
  ELSE IF L.status # "ok" THEN "list-unparsed"
  ELSE IF \E i \in Inner(T) : Cardinality({k \in Opening(L) : L.lines[k].node = i}) # 1 THEN "list-every-job-once"
  ELSE IF Cardinality(Opening(L)) # T.n - 1 THEN "list-extra-lines"
  ELSE IF \E i \in Inner(T) : L.lines[LineOf(L, i)].id # T.rid2[i] THEN "list-ids"
  ELSE IF {NumOf(L, i) : i \in Inner(T)} # 1..(T.n - 1) THEN "list-numbering"
  ELSE IF \E k1, k2 \in Opening(L) : k1 < k2 /\ L.lines[k1].num >= L.lines[k2].num THEN "list-order"
  ELSE IF \E j \in Inner(T) : \E r \in SetOf(T.req[j]) : NumOf(L, r) >= NumOf(L, j) THEN "list-topological"
  ELSE IF \E s \in Nesteds(T) : \E d \in Below(T, s) :
             ~(NumOf(L, d) > NumOf(L, s) /\ NumOf(L, d) <= NumOf(L, s) + Cardinality(Below(T, s))) THEN "list-nesting"
  ELSE IF \E j \in Inner(T) : SetOf(L.lines[LineOf(L, j)].reqs) # {T.rid2[r] : r \in SetOf(T.req[j])} THEN "list-requires"
  ELSE IF \E s \in Nesteds(T) : Cardinality({k \in 1..Len(L.lines) : L.lines[k].end /\ L.lines[k].id = T.rid2[s]}) # 1
       THEN "list-end-lines"
  ELSE ""

=============================================================================
