--------------------------- MODULE OrchestraTrace ---------------------------
(***************************************************************************)
(* Trace specification: decides whether traces recorded from the real      *)
(* asynciojobs package (harness/record.py) are behaviours of Orchestra.     *)
(*                                                                         *)
(* Batch mode: TRACE_FILE holds a JSON array of traces; there is one       *)
(* initial state per trace.  A logged event is the corresponding Orchestra *)
(* action with its parameters bound from the event, plus equality of the   *)
(* logged fields with the state; Process, Timeout, CancelProp, ShutExpire  *)
(* and ShutCancelProp are not observable at the public API and are silent: *)
(* TLC infers them.  A trace is accepted iff a state with l = Len + 1 is   *)
(* reached; for the others the frontier states print why the next event    *)
(* is refused (the attribution of DESIGN.md appendix B).                   *)
(***************************************************************************)
EXTENDS OrchestraProps, OrchestraSymptoms, Json, IOUtils, TLCExt

Traces == JsonDeserialize(IOEnv.TRACE_FILE)

VARIABLES tid, l, marks
tvars == <<cfg, S, tid, l, marks>>

Evs   == Traces[tid].ev
NEv   == Len(Evs)
Ev    == Evs[l]
Has   == l <= NEv
Is(k) == Has /\ Ev.k = k /\ Ev.t = S.now
Once(tag, n)   == <<tag, n>> \notin marks /\ marks' = marks \cup {<<tag, n>>}
Marked(tag, n) == <<tag, n>> \in marks
Same  == S' = S
KeepM == marks' = marks

TInit ==
  /\ tid \in 1..Len(Traces)
  /\ cfg = CfgOf(Traces[tid].cfg)
  /\ S = InitS(cfg)
  /\ l = 1
  /\ marks = {}

-----------------------------------------------------------------------------
(* what the inspection API must answer in state X (C14)                    *)
RTagOf(X, n) == IF X.st[n] = "ok" THEN X.res[n][1] ELSE IF X.st[n] = "exc" THEN "null" ELSE "unset"
ETagOf(X, n) == IF X.st[n] = "exc" THEN X.res[n][2] ELSE 0
(* the badge printed by list() / debrief(): life-cycle symbol (done, running, *)
(* scheduled, idle) and outcome symbol (raised, running-or-ran, none)        *)
BadgeOf(X, n) == (IF IsDoneOf(X, n) THEN 0 ELSE IF IsRunningOf(X, n) THEN 1 ELSE IF IsScheduledOf(X, n) THEN 2 ELSE 3) * 3
               + (IF X.st[n] = "exc" THEN 0 ELSE IF IsRunningOf(X, n) THEN 1 ELSE 2)
SnapOf(C, X) == [i \in 1..(C.n - 1) |-> <<BitsOf(X, i + 1), RTagOf(X, i + 1), ETagOf(X, i + 1), BadgeOf(X, i + 1)>>]

DiagOf(X, s) ==
  CASE X.cause[s] = "success"  -> <<"fine", 4>>
    [] X.cause[s] = "timeout"  -> <<"timeout", 5>>
    [] X.cause[s] = "critical" -> <<"critical", 6>>
    [] OTHER -> <<"?", 0>>

ResTag(X, s) == IF X.st[s] = "exc" THEN <<"exc", X.res[s][2]>>
                ELSE IF X.st[s] = "cancelled" THEN <<"cancelled", 0>> ELSE <<X.res[s][1], 0>>

(* the loop was stalled at or after time t (earlier in the trace)            *)
StalledSince(t) == \E i \in 1..(l - 1) : Evs[i].k = "stall" /\ Evs[i].t >= t

JustAfter(k, n) == l > 1 /\ Evs[l - 1].k = k /\ Evs[l - 1].n = n

-----------------------------------------------------------------------------
(* logged events                                                           *)
ERunBegin ==
  /\ Is("run-begin") /\ KeepM
  /\ IF Ev.n = Root THEN l = 1 /\ Same
     ELSE IsSched(cfg, Ev.n) /\ AdmitG(cfg, S, Ev.n) /\ S' = AdmitF(cfg, S, Ev.n)

EStart ==
  /\ Is("start") /\ KeepM
  /\ IsJob(cfg, Ev.n) /\ AdmitG(cfg, S, Ev.n) /\ S' = AdmitF(cfg, S, Ev.n)

EEnd ==
  /\ Is("end") /\ KeepM
  /\ JobEndG(cfg, S, Ev.n) /\ OutOK(cfg, Ev.n, "ok") /\ S' = JobEndF(cfg, S, Ev.n, "ok")

ERaise ==
  /\ Is("raise") /\ KeepM
  /\ JobEndG(cfg, S, Ev.n) /\ OutOK(cfg, Ev.n, "exc") /\ S' = JobEndF(cfg, S, Ev.n, "exc")

(* the body ends in CancelledError on its own                                 *)
ESelfCancel ==
  /\ Is("self-cancel") /\ KeepM
  /\ JobEndG(cfg, S, Ev.n) /\ OutOK(cfg, Ev.n, "selfc") /\ S' = JobEndF(cfg, S, Ev.n, "selfc")

ECancel ==
  /\ Is("cancel") /\ Once("cancel", Ev.n)
  /\ IsJob(cfg, Ev.n) /\ S.st[Ev.n] = "cancelling"
  /\ S.tc[Ev.n] = S.now \/ StalledSince(S.tc[Ev.n])
  \* the clean-up runs from the moment the cancellation is delivered
  /\ S' = [S EXCEPT !.tc[Ev.n] = S.now]

ERecancel == Is("recancel") /\ KeepM /\ S.st[Ev.n] = "cancelling" /\ Same

ECancelDone ==
  /\ Is("cancel-done") /\ KeepM /\ Marked("cancel", Ev.n) /\ cfg.cout[Ev.n] = "cancelled"
  /\ CancelDoneG(cfg, S, Ev.n) /\ S' = CancelDoneF(cfg, S, Ev.n)

(* the clean-up of a cancelled body ends by raising something else           *)
ECancelRaise ==
  /\ Is("cancel-raise") /\ KeepM /\ Marked("cancel", Ev.n) /\ cfg.cout[Ev.n] = "exc"
  /\ CancelDoneG(cfg, S, Ev.n) /\ S' = CancelDoneF(cfg, S, Ev.n)

(* entry of a scheduler's co_shutdown(): end of its own run's tidy phase,  *)
(* relay of the co_shutdown() received from its parent, or the explicit    *)
(* shutdown() issued after the top-level run                               *)
ESshut ==
  /\ Is("sshut") /\ KeepM
  /\ \/ Ev.n = Root /\ ~cfg.xshut /\ Terminated(cfg, S) /\ Same
     \/ Ev.n = Root /\ XShutG(cfg, S) /\ Marked("top", Root) /\ S' = XShutF(cfg, S)
     \/ /\ TidyDoneG(cfg, S, Ev.n) /\ S.cause[Ev.n] # "cancelled"
        /\ \E k \in TidyKs(cfg, S, Ev.n) : S' = TidyDoneF(cfg, S, Ev.n, k)
     \/ RelayG(cfg, S, Ev.n) /\ S' = RelayF(cfg, S, Ev.n)

ESshutRet ==
  /\ Is("sshut-ret") /\ KeepM
  /\ \/ /\ Ev.n = Root /\ ~cfg.xshut /\ Terminated(cfg, S) /\ Same /\ Ev.v = "null" /\ JustAfter("sshut", Root)
     \/ \* the explicit shutdown() had nothing to send
        /\ Ev.n = Root /\ cfg.xshut /\ S.xs = "done" /\ JustAfter("sshut", Root) /\ Same
        /\ Ev.v = IF Kids(cfg, Root) = {} /\ S.sres[Root] = "true" THEN "true" ELSE "null"
     \/ \* immediate return of a relay: already shut down, or no member
        /\ Ev.n # Root /\ ~Casting(cfg, S, Ev.n) /\ JustAfter("sshut", Ev.n)
        /\ S.sh[Ev.n] = "done" /\ Same
        /\ Ev.v = IF Kids(cfg, Ev.n) = {} THEN "true" ELSE "null"
     \/ \* it had shut down before (a shutdown() issued before the run): nothing is sent
        /\ Over(S, Ev.n) /\ S.sres[Ev.n] = "skip" /\ JustAfter("sshut", Ev.n)
        /\ Ev.v = "null" /\ Same
     \/ /\ ShutJoinG(cfg, S, Ev.n)
        /\ IF OwnShut(cfg, S, Ev.n) THEN S.cause[Ev.n] # "cancelled"
           ELSE IF XCast(cfg, S, Ev.n) THEN TRUE ELSE S.sh[Ev.n] = "running"
        /\ \E k \in Culprits(cfg, S, Ev.n) : S' = ShutJoinF(cfg, S, Ev.n, k)
        /\ S'.sres[Ev.n] = Ev.v

ESshutCancel ==
  /\ Is("sshut-cancel") /\ KeepM
  /\ ShutJoinG(cfg, S, Ev.n)
  /\ IF OwnShut(cfg, S, Ev.n) THEN S.cause[Ev.n] = "cancelled" ELSE S.sh[Ev.n] = "cing"
  /\ S' = ShutJoinF(cfg, S, Ev.n, Ev.n)

ERunEnd ==
  /\ Is("run-end") /\ Once("ran", Ev.n)
  /\ Over(S, Ev.n) /\ S.te[Ev.n] = S.now /\ S.st[Ev.n] = "ok" /\ S.res[Ev.n] = <<Ev.v, 0>>
  \* one task step: co_shutdown() returns, then co_run() returns (an empty
  \* scheduler returns straight after it began)
  /\ IF Kids(cfg, Ev.n) = {} THEN (Ev.n = Root \/ JustAfter("run-begin", Ev.n)) ELSE JustAfter("sshut-ret", Ev.n)
  /\ Same

ERunExc ==
  /\ Is("run-exc") /\ Once("ran", Ev.n)
  /\ \/ /\ Ev.v = "cancelled" /\ TidyDoneG(cfg, S, Ev.n) /\ S.cause[Ev.n] = "cancelled"
        /\ S' = TidyDoneF(cfg, S, Ev.n, Ev.n)
     \/ /\ Ev.v = "cancelled" /\ Over(S, Ev.n) /\ S.st[Ev.n] = "cancelled" /\ S.te[Ev.n] = S.now
        /\ JustAfter("sshut-cancel", Ev.n) /\ Same
     \/ /\ Ev.v = "exc" /\ Over(S, Ev.n) /\ S.st[Ev.n] = "exc" /\ S.te[Ev.n] = S.now
        /\ S.res[Ev.n] = <<"exc", Ev.i>> /\ JustAfter("sshut-ret", Ev.n) /\ Same

EDiag ==
  /\ Is("diag") /\ Once("diag", Ev.n)
  /\ Over(S, Ev.n) /\ Marked("ran", Ev.n) /\ <<Ev.v, Ev.i>> = DiagOf(S, Ev.n) /\ Same
  /\ JustAfter("run-end", Ev.n) \/ JustAfter("run-exc", Ev.n)

EShut ==
  /\ Is("shut") /\ Once("shut", Ev.n)
  /\ IsJob(cfg, Ev.n) /\ S.sh[Ev.n] = "running"
  /\ S.ts[Ev.n] = S.now \/ StalledSince(S.ts[Ev.n])
  \* the handler runs from the moment it is entered
  /\ S' = [S EXCEPT !.ts[Ev.n] = S.now]

EShutDone ==
  /\ Is("shut-done") /\ KeepM /\ Marked("shut", Ev.n)
  /\ HandlerEndG(cfg, S, Ev.n) /\ S' = HandlerEndF(cfg, S, Ev.n)

EShutCancel ==
  /\ Is("shut-cancel") /\ Once("shc", Ev.n) /\ Marked("shut", Ev.n)
  /\ IsJob(cfg, Ev.n)
  \* the cancellation is delivered in the instant it was requested
  /\ S.tsc[Ev.n] = S.now \/ StalledSince(S.tsc[Ev.n])
  /\ IF cfg.scdur[Ev.n] > 0
     THEN S.sh[Ev.n] = "cing" /\ S' = [S EXCEPT !.tsc[Ev.n] = S.now]
     ELSE S.sh[Ev.n] = "cancelled" /\ Same

(* a handler that is unwinding is cancelled once more: harmless              *)
EShutRecancel == Is("shut-recancel") /\ KeepM /\ S.sh[Ev.n] = "cing" /\ Same

EShutCancelDone ==
  /\ Is("shut-cancel-done") /\ KeepM /\ Marked("shc", Ev.n)
  /\ HandlerCancelDoneG(cfg, S, Ev.n) /\ S' = HandlerCancelDoneF(cfg, S, Ev.n)

ETick ==
  /\ Is("tick") /\ KeepM
  /\ TickG(cfg, S) /\ S' = TickF(cfg, S) /\ S'.now = Ev.i

(* the event loop was kept busy by a blocking job body: the clock moves on  *)
(* although instant actions are pending (the one deviation from maximal    *)
(* progress the environment is allowed; only in scenarios that script it)  *)
(* the caller cancels the task of the top-level co_run()                     *)
EUserCancel ==
  /\ Is("ucancel") /\ KeepM
  /\ UserCancelG(cfg, S) /\ S' = UserCancelF(cfg, S)

EStall ==
  /\ Is("stall") /\ KeepM
  /\ Ev.i > S.now /\ S' = [S EXCEPT !.now = Ev.i]

ESnap ==
  /\ Is("snap") /\ KeepM /\ Same
  /\ Ev.sn = SnapOf(cfg, S)

(* result() / raised_exception() of every node once the run is over          *)
ResOf(C, X) == [i \in 1..(C.n - 1) |-> <<RTagOf(X, i + 1), ETagOf(X, i + 1)>>]
ERes ==
  /\ Is("res") /\ KeepM /\ Same
  /\ Terminated(cfg, S) /\ Ev.sn = ResOf(cfg, S)

(* every co_shutdown() the specification says was sent has been seen       *)
AllShutSeen ==
  /\ \A j \in Jobs(cfg) : S.sh[j] # "none" => Marked("shut", j)
  /\ \A j \in Jobs(cfg) : S.sh[j] \in {"cancelled", "cing"} => Marked("shc", j)
  /\ \A s \in Scheds(cfg) : (s # Root /\ S.nstart[s] > 0) => Marked("ran", s)

ETop ==
  /\ Is("top") /\ Once("top", Root) /\ Same
  /\ Terminated(cfg, S) /\ (Kids(cfg, Root) = {} \/ Marked("ran", Root))
  /\ <<Ev.v, Ev.i>> = ResTag(S, Root)
  /\ AllShutSeen

(* a run that hangs is what the specification predicts exactly when the      *)
(* configuration is outside the hypothesis of C03 (a handler that never      *)
(* returns under shutdown_timeout=None, a never-ending regular job without   *)
(* timeout, ...) and the specification is stuck in the same way              *)
ETopHang ==
  /\ Is("top") /\ Once("top", Root) /\ Same
  /\ Ev.v = "deadlock" /\ Stuck(cfg, S) /\ ~Admissible(cfg)

(* the caller's explicit shutdown() hangs: only outside the hypothesis of C03 *)
(* (a handler that never returns under shutdown_timeout=None), and when the   *)
(* specification is stuck in the same way                                     *)
ELateHang ==
  /\ Is("late-hang") /\ KeepM /\ Same
  /\ cfg.xshut /\ S.xs = "running" /\ ~AnyInstant(cfg, S) /\ Future(cfg, S) = {} /\ ~Admissible(cfg)

ELeftover ==
  /\ Is("leftover") /\ KeepM /\ Same
  /\ Terminated(cfg, S) /\ Marked("top", Root) /\ Ev.i = 0
  /\ cfg.xshut => (S.xs = "done" /\ AllShutSeen)

(* one named action per kind of event and per silent action, so that TLC's   *)
(* coverage report says which actions the validated traces exercised       *)
LRunBegin == UNCHANGED <<cfg, tid>> /\ l' = l + 1 /\ ERunBegin
LStart == UNCHANGED <<cfg, tid>> /\ l' = l + 1 /\ EStart
LEnd == UNCHANGED <<cfg, tid>> /\ l' = l + 1 /\ EEnd
LRaise == UNCHANGED <<cfg, tid>> /\ l' = l + 1 /\ ERaise
LSelfCancel == UNCHANGED <<cfg, tid>> /\ l' = l + 1 /\ ESelfCancel
LCancel == UNCHANGED <<cfg, tid>> /\ l' = l + 1 /\ ECancel
LRecancel == UNCHANGED <<cfg, tid>> /\ l' = l + 1 /\ ERecancel
LCancelDone == UNCHANGED <<cfg, tid>> /\ l' = l + 1 /\ ECancelDone
LCancelRaise == UNCHANGED <<cfg, tid>> /\ l' = l + 1 /\ ECancelRaise
LSshut == UNCHANGED <<cfg, tid>> /\ l' = l + 1 /\ ESshut
LSshutRet == UNCHANGED <<cfg, tid>> /\ l' = l + 1 /\ ESshutRet
LSshutCancel == UNCHANGED <<cfg, tid>> /\ l' = l + 1 /\ ESshutCancel
LRunEnd == UNCHANGED <<cfg, tid>> /\ l' = l + 1 /\ ERunEnd
LRunExc == UNCHANGED <<cfg, tid>> /\ l' = l + 1 /\ ERunExc
LDiag == UNCHANGED <<cfg, tid>> /\ l' = l + 1 /\ EDiag
LShut == UNCHANGED <<cfg, tid>> /\ l' = l + 1 /\ EShut
LShutDone == UNCHANGED <<cfg, tid>> /\ l' = l + 1 /\ EShutDone
LShutCancel == UNCHANGED <<cfg, tid>> /\ l' = l + 1 /\ EShutCancel
LTick == UNCHANGED <<cfg, tid>> /\ l' = l + 1 /\ ETick
LSnap == UNCHANGED <<cfg, tid>> /\ l' = l + 1 /\ ESnap
LTop == UNCHANGED <<cfg, tid>> /\ l' = l + 1 /\ ETop
LTopHang == UNCHANGED <<cfg, tid>> /\ l' = l + 1 /\ ETopHang
LRes == UNCHANGED <<cfg, tid>> /\ l' = l + 1 /\ ERes
LLeftover == UNCHANGED <<cfg, tid>> /\ l' = l + 1 /\ ELeftover
LLateHang == UNCHANGED <<cfg, tid>> /\ l' = l + 1 /\ ELateHang
LStall == UNCHANGED <<cfg, tid>> /\ l' = l + 1 /\ EStall
LShutCancelDone == UNCHANGED <<cfg, tid>> /\ l' = l + 1 /\ EShutCancelDone
LShutRecancel == UNCHANGED <<cfg, tid>> /\ l' = l + 1 /\ EShutRecancel
LUserCancel == UNCHANGED <<cfg, tid>> /\ l' = l + 1 /\ EUserCancel
QProcess == UNCHANGED <<cfg, tid>> /\ l' = l /\ KeepM /\ Has /\ \E s \in Scheds(cfg) : Process(s)
QTimeout == UNCHANGED <<cfg, tid>> /\ l' = l /\ KeepM /\ Has /\ \E s \in Scheds(cfg) : Timeout(s)
QCancelProp == UNCHANGED <<cfg, tid>> /\ l' = l /\ KeepM /\ Has /\ \E s \in Scheds(cfg) : CancelProp(s)
QShutExpire == UNCHANGED <<cfg, tid>> /\ l' = l /\ KeepM /\ Has /\ \E s \in Scheds(cfg) : ShutExpire(s)
QShutCancelProp == UNCHANGED <<cfg, tid>> /\ l' = l /\ KeepM /\ Has /\ \E s \in Scheds(cfg) : ShutCancelProp(s)

Logged == LRunBegin \/ LStart \/ LEnd \/ LRaise \/ LSelfCancel \/ LCancel \/ LRecancel \/ LCancelDone \/ LCancelRaise \/ LSshut \/ LSshutRet
          \/ LSshutCancel \/ LRunEnd \/ LRunExc \/ LDiag \/ LShut \/ LShutDone \/ LShutCancel \/ LTick \/ LSnap
          \/ LTop \/ LTopHang \/ LRes \/ LLeftover \/ LLateHang \/ LStall \/ LShutCancelDone \/ LShutRecancel \/ LUserCancel
Silent == QProcess \/ QTimeout \/ QCancelProp \/ QShutExpire \/ QShutCancelProp

TNext == Logged \/ Silent
TSpec == TInit /\ [][TNext]_tvars

-----------------------------------------------------------------------------
(* acceptance and diagnosis, printed while exploring                       *)
Accepted == l = NEv + 1

(* what the run of n claims about itself: from the verdict event e and the  *)
(* diagnosis that follows it                                               *)
Claim(e, n) ==
  LET nxt == IF l + 1 <= NEv /\ Evs[l + 1].k = "diag" /\ Evs[l + 1].n = n THEN Evs[l + 1].v ELSE "unknown" IN
  IF e.k = "run-end" /\ e.v = "true" THEN "-claims-success"
  ELSE IF e.k = "run-exc" /\ e.i = 0 - n THEN "-claims-timeout"
  ELSE IF nxt = "timeout" THEN "-claims-timeout"
  ELSE IF nxt = "critical" THEN "-claims-critical"
  ELSE IF nxt = "fine" THEN "-claims-fine-but-failed"
  ELSE "-claims-failure"

(* why is event e refused in state X?  first failing clause, as a code     *)
Why(C, X, e) ==
  LET n == e.n
      p == IF n >= 2 /\ n <= C.n THEN C.parent[n] ELSE Root
      pcause == X.cause[p]
      \* n is, or lives under, a forever job / forever nested scheduler
      RECURSIVE UnderForever(_)
      UnderForever(x) == x >= 2 /\ x <= C.n /\ (C.forever[x] \/ UnderForever(C.parent[x]))
      fsuffix == IF UnderForever(n) THEN "-under-forever" ELSE ""
      \* the critical failure came out of a critical nested scheduler (C10: it propagates)
      nsuffix == IF \E k \in Kids(C, p) : IsSched(C, k) /\ C.crit[k] /\ X.st[k] = "exc" THEN "-by-nested" ELSE ""
      \* the run of n ends (abnormally) while forever jobs of its own are alive: they outlive it (C09)
      lsuffix == IF n >= 1 /\ n <= C.n /\ IsSched(C, n) /\ (\E k \in Kids(C, n) : C.forever[k] /\ Live(X, k))
                 THEN "-leaving-forever-jobs" ELSE ""
      byCause == (CASE pcause = "critical" -> "parent-aborted-critical" \o nsuffix
                    [] pcause = "timeout" -> "parent-aborted-timeout"
                    [] pcause = "success" -> "parent-aborted-success"
                    [] pcause = "cancelled" -> "parent-aborted-cancelled"
                    [] OTHER -> "parent-not-main") \o fsuffix
  IN
  IF e.t # X.now THEN
       (IF e.k \in {"end", "raise", "start", "run-begin"} /\ e.t > X.now THEN "late-" \o e.k \o "-" \o byCause
        ELSE "time-mismatch-" \o e.k)
  ELSE CASE e.k \in {"start", "run-begin"} ->
            (IF n = Root THEN "bad-root-begin"
             ELSE IF X.nstart[n] > 0 THEN "second-start"
             ELSE IF \E r \in C.req[n] : ~Fin(X, r) /\ C.forever[r] THEN "req-unfinished-forever"
             ELSE IF \E r \in C.req[n] : ~Fin(X, r) THEN "req-unfinished"
             ELSE IF ~Started(X, p) THEN "parent-not-started"
             ELSE IF X.pc[p] # "main" THEN "start-" \o byCause
             ELSE IF X.st[n] = "cancelled" THEN "start-after-cancel"
             ELSE IF X.st[n] = "idle" THEN "start-not-scheduled"
             ELSE IF ~HasRoom(C, X, p) THEN "window-full" \o (IF IsSched(C, n) THEN "-nested" ELSE "")
             ELSE "start-other")
       [] e.k \in {"end", "raise", "self-cancel"} ->
            (IF X.st[n] \in {"cancelling", "cancelled"} THEN "end-after-cancel-" \o byCause
             ELSE IF X.st[n] # "running" THEN "end-not-running"
             ELSE IF ~OutOK(C, n, IF e.k = "end" THEN "ok" ELSE IF e.k = "raise" THEN "exc" ELSE "selfc") THEN "outcome-mismatch"
             ELSE "end-time")
       [] e.k = "cancel" ->
            (IF X.st[n] = "running" THEN "spurious-cancel-" \o byCause
             ELSE IF Fin(X, n) THEN "cancel-after-end" ELSE "cancel-other")
       [] e.k \in {"cancel-done", "cancel-raise"} -> "cancel-done-early"
       [] e.k = "tick" ->
            (IF \E j \in Nodes(C) : AdmitG(C, X, j)
             THEN \* an eligible job is kept waiting although its own scheduler has room
                  "tick-over-eligible-job" \o
                  (IF \E j \in Nodes(C) : AdmitG(C, X, j) /\ C.win[C.parent[j]] > 0 /\ C.parent[j] # Root THEN "-nested-window"
                   ELSE IF \E j \in Nodes(C) : AdmitG(C, X, j) /\ C.win[C.parent[j]] > 0 THEN "-window" ELSE "")
             ELSE IF \E s \in Scheds(C) : MainG(C, X, s) /\ Unseen(C, X, s) # {} THEN "tick-over-unprocessed"
             ELSE IF \E s \in Scheds(C) : TimeoutG(C, X, s) THEN "tick-over-deadline"
             ELSE IF \E s \in Scheds(C) : ShutExpireG(C, X, s) THEN "tick-over-shutdown-deadline"
             ELSE IF \E s \in Scheds(C) : TidyDoneG(C, X, s) \/ ShutJoinG(C, X, s) THEN "tick-over-ending-run"
             ELSE IF \E j \in Nodes(C) : JobEndG(C, X, j) \/ CancelDoneG(C, X, j) \/ HandlerEndG(C, X, j) \/ HandlerCancelDoneG(C, X, j) THEN "tick-over-job-alarm"
             ELSE IF AnyInstant(C, X) THEN "tick-over-instant"
             ELSE IF Terminated(C, X) THEN "tick-after-end"
             ELSE IF Future(C, X) = {} THEN "tick-no-alarm"
             ELSE "tick-target-" \o ToString(Min(Future(C, X))))
       [] e.k = "sshut" ->
            (IF X.did[n] /\ X.pc[n] = "over" /\ ~(X.sh[n] = "running") THEN "shutdown-repeated"
             ELSE IF X.pc[n] = "tidy" /\ \E k \in Kids(C, n) : Live(X, k) THEN "shutdown-while-live"
             ELSE IF X.pc[n] = "main" THEN "shutdown-in-main"
             ELSE "sshut-other")
       [] e.k = "sshut-ret" ->
            (IF Casting(C, X, n) /\ Pend(C, X, n) # {} THEN "shutdown-returns-with-pending"
             ELSE IF OwnShut(C, X, n) /\ X.cause[n] = "cancelled" THEN "shutdown-swallows-cancel-" \o byCause
             ELSE IF AsMember(C, X, n) /\ X.sh[n] \in {"creq", "cing"} THEN "shutdown-swallows-cancel-" \o byCause
             ELSE IF Casting(C, X, n) THEN "shutdown-value"
             ELSE "sshut-ret-other")
       [] e.k = "sshut-cancel" -> "sshut-cancel-unexpected"
       [] e.k = "run-end" ->
            (IF ~Over(X, n) THEN "run-end-early" \o (IF \E j \in Nodes(C) : AdmitG(C, X, j) THEN "-eligible-waiting" ELSE "")
             ELSE IF X.st[n] = "exc" THEN "verdict-returned-instead-of-raise" \o Claim(e, n) \o "-spec-" \o X.cause[n]
             ELSE IF X.res[n] # <<e.v, 0>> THEN "verdict-value" \o Claim(e, n) \o "-spec-" \o X.cause[n]
             ELSE "run-end-other")
       [] e.k = "run-exc" ->
            (IF e.v = "other" THEN "verdict-foreign-exception" \o lsuffix
             ELSE IF ~Over(X, n) /\ e.v = "cancelled" /\ ~X.creq[n] /\ X.cause[n] # "cancelled"
                  THEN "verdict-cancelled-without-cancellation" \o lsuffix   \* CancelledError out of a run nobody cancelled
             ELSE IF ~Over(X, n) /\ e.v = "cancelled"
                  THEN "cancelled-run-ends-early-" \o byCause \o (IF n >= 2 /\ n <= C.n /\ C.win[p] > 0 THEN "-in-window" ELSE "")
             ELSE IF ~Over(X, n) THEN "run-exc-early"
             ELSE IF X.st[n] = "ok" THEN "verdict-raise-instead-of-return" \o Claim(e, n) \o "-spec-" \o X.cause[n]
             ELSE IF X.st[n] = "exc" /\ X.res[n] # <<"exc", e.i>> THEN "verdict-exception-identity" \o Claim(e, n) \o "-spec-" \o X.cause[n]
             ELSE "run-exc-other")
       [] e.k = "diag" -> "diagnosis-claims-" \o e.v \o "-spec-" \o X.cause[n]
       [] e.k = "shut" ->
            (IF Marked("shut", n) THEN "shut-twice"
             ELSE IF X.sh[n] = "none" /\ \E b \in Desc(C, p) : Live(X, b) THEN "shut-while-sibling-live"
             ELSE IF X.sh[n] = "none" THEN "shut-unexpected"
             ELSE "shut-other")
       [] e.k = "shut-done" -> "shut-done-unexpected"
       [] e.k = "shut-cancel" -> (IF X.sh[n] \in {"cing", "cancelled"} /\ X.tsc[n] # X.now THEN "shut-cancel-late" ELSE "shut-cancel-unexpected")
       [] e.k = "shut-cancel-done" -> "shut-cancel-done-early"
       [] e.k = "snap" -> "predicates"
       [] e.k = "res" ->
            (IF ~Terminated(C, X) THEN "results-early"
             ELSE LET bad == {i \in 1..(C.n - 1) : e.sn[i] # ResOf(C, X)[i]}
                      i == CHOOSE x \in bad : \A y \in bad : x <= y
                      \* the job was given up by its scheduler (cancelled, or never started):
                      \* what it reports then is also about how that scheduler's run ended
                      gaveup == IF bad # {} /\ X.st[i + 1] \in {"cancelled", "idle"}
                                THEN (CASE X.cause[C.parent[i + 1]] = "critical" -> "-parent-aborted-critical"
                                        [] X.cause[C.parent[i + 1]] = "timeout" -> "-parent-aborted-timeout"
                                        [] X.cause[C.parent[i + 1]] = "success" -> "-parent-aborted-success"
                                        [] X.cause[C.parent[i + 1]] = "cancelled" -> "-parent-aborted-cancelled"
                                        [] OTHER -> "")
                                ELSE ""
                  IN IF bad = {} THEN "results-other"
                     ELSE IF IsSched(C, i + 1) THEN "results-nested-scheduler" \o gaveup
                     ELSE IF X.st[i + 1] = "exc" THEN "results-exception"
                     ELSE "results-job" \o gaveup)
       [] e.k = "stall" -> "stall-other"
       [] e.k = "ucancel" -> "user-cancel-other"
       [] e.k = "alien" -> "alien-job-" \o e.v
       [] e.k = "top" ->
            (IF e.v \in {"deadlock", "livelock"} THEN "no-progress-" \o e.v
             ELSE IF ~Terminated(C, X) THEN "top-early"
             ELSE IF <<e.v, e.i>> # ResTag(X, Root) THEN "verdict-top"
             ELSE IF ~AllShutSeen THEN "shut-missing"
             ELSE "top-other")
       [] e.k = "leftover" -> "leftover-tasks"
       [] e.k = "shut-recancel" -> "shut-recancel-unexpected"
       [] e.k = "late-hang" -> "no-progress-explicit-shutdown"
       [] e.k = "late-exc" -> "shutdown-raises"
       [] e.k = "build-exc" -> "build-raises"
       [] OTHER -> "unknown-event"

(* evaluated as a state constraint: prints, never prunes *)
Report ==
  /\ IF Accepted THEN PrintT(<<"ACC", tid>>) ELSE TRUE
  /\ TRUE

(* frontier report for the diagnosis pass: every state prints its position; *)
(* the driver keeps the states with the greatest l                          *)
Frontier ==
  \* single strings: TLC breaks long tuples over several lines
  /\ IF Has THEN PrintT("AT|" \o ToString(tid) \o "|" \o ToString(l) \o "|" \o Ev.k \o "|" \o ToString(Ev.n)
                         \o "|" \o Why(cfg, S, Ev))
     ELSE PrintT(<<"ACC", tid>>)
  /\ (l = 1 /\ marks = {}) => PrintT("SYM|" \o ToString(tid) \o "|" \o ToString(Symptoms(cfg, Evs)))

=============================================================================
