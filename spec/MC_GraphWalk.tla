---------------------------- MODULE MC_GraphWalk ----------------------------
(***************************************************************************)
(* Graph.tla as a state machine (spec -> code for C15-C18).                *)
(* In simulation mode (tlc -simulate) TLC walks through edit histories of a *)
(* nested scheduler tree, one API call at a time, over a fixed universe of *)
(* objects: every call Graph.tla gives a meaning to, with the parameters   *)
(* that are legal in the current state (and a few that must raise).  The   *)
(* design-level properties of the edits are checked on every transition of *)
(* every walk, here on nested, unclosed and cyclic states too (MC_Graph    *)
(* checks them on all flat graphs of a bound); each finished walk is       *)
(* printed, the driver replays it into the real classes, and GraphTrace    *)
(* validates every step and every query against the same Graph.tla.        *)
(***************************************************************************)
EXTENDS Graph, Json, TLCExt, Randomization

(* 1 top scheduler, 5 and 9 nestable schedulers, 10 a PureScheduler        *)
KK == <<"sched", "job", "job", "job", "sched", "job", "job", "job", "sched", "pure">>
N  == Len(KK)
UW == [n |-> N, kind |-> [x \in 1..N |-> KK[x]], forever |-> [x \in 1..N |-> x \in {4, 7}]]
Depth == 8

VARIABLES G, hist, last
wvars == <<G, hist, last>>

Scheds  == {x \in 1..N : IsS(UW, x)}
JobLike == {x \in 1..N : KK[x] # "pure"}
Owned(X)  == UNION {X.mem[s] : s \in Scheds}
RECURSIVE Anc(_, _)
Anc(X, x) == LET up == {s \in Scheds : x \in X.mem[s]} IN up \cup UNION {Anc(X, s) : s \in up}
(* objects that may join scheduler s without making the tree a graph       *)
Free(X, s) == {x \in JobLike : x \notin Owned(X) /\ x # s /\ x \notin Anc(X, s)}

Init0 == [mem |-> [x \in 1..N |-> CASE x = 1 -> {2, 3, 4, 5} [] x = 5 -> {6, 7} [] x = 10 -> {} [] OTHER -> {}],
          req |-> [x \in 1..N |-> CASE x = 3 -> {2} [] x = 4 -> {3} [] x = 5 -> {2} [] x = 7 -> {6} [] OTHER -> {}]]

Small(S) == {A \in SUBSET S : Cardinality(A) <= 2}
Step(op, s, x, A, B, f1, f2, f3) ==
  [op |-> op, s |-> s, x |-> x, A |-> A, B |-> B, f1 |-> f1, f2 |-> f2, f3 |-> f3]

Mostly(X, s) == X.mem[s] \cup RandomSubset(1, JobLike)      \* members, and one object that may not be one
Menu(X) ==
       {Step("requires", 0, x, A, {}, FALSE, FALSE, FALSE) : x \in RandomSubset(3, JobLike), A \in RandomSubset(3, Small(JobLike) \ {{}})}
  \cup {Step("requires", 0, x, A, {}, TRUE, FALSE, FALSE) : x \in {y \in JobLike : X.req[y] # {}}, A \in RandomSubset(3, Small(JobLike) \ {{}})}
  \cup {Step("add", s, x, {}, {}, FALSE, FALSE, FALSE) : s \in Scheds, x \in JobLike}
  \cup {Step("update", s, 0, A, {}, FALSE, FALSE, FALSE) : s \in RandomSubset(2, Scheds), A \in RandomSubset(2, Small(JobLike))}
  \cup UNION {{Step("remove", s, x, {}, {}, FALSE, FALSE, FALSE) : x \in Mostly(X, s)} : s \in Scheds}
  \cup {Step("sanitize", s, 0, {}, {}, f, FALSE, FALSE) : s \in Scheds, f \in BOOLEAN}
  \cup UNION {{Step("bypass", s, x, {}, {}, FALSE, FALSE, FALSE) : x \in Mostly(X, s)} : s \in Scheds}
  \cup UNION {{Step("keep_only", s, 0, A, {}, f, FALSE, FALSE) : A \in RandomSubset(2, SUBSET Mostly(X, s)), f \in BOOLEAN} : s \in RandomSubset(2, Scheds)}
  \cup UNION {{Step("keep_between", s, 0, A, B, f1, f2, TRUE) : A \in RandomSubset(2, Small(X.mem[s])), B \in RandomSubset(2, Small(X.mem[s])),
                                                                 f1 \in BOOLEAN, f2 \in BOOLEAN} : s \in RandomSubset(2, Scheds)}
  \cup {Step("scan", s, 0, {}, {}, FALSE, FALSE, FALSE) : s \in RandomSubset(1, Scheds)}
  \cup {Step("display", s, 0, {}, {}, FALSE, FALSE, FALSE) : s \in RandomSubset(1, Scheds)}

(* calls the walk makes: the effect is determined, the tree stays a tree,   *)
(* starts / ends are members (what the documentation asks for)              *)
Legal(X, st) ==
  /\ st.op = "requires" => ~RequiresRaises(X, st.x, st.A, st.f1)
  /\ st.op = "add" => st.x \in Free(X, st.s)
  /\ st.op = "update" => st.A \subseteq Free(X, st.s) /\ \A a, b \in st.A : a = b \/ (a \notin Anc(X, b) /\ b \notin Anc(X, a))
  /\ st.op = "keep_between" => st.A \subseteq X.mem[st.s] /\ st.B \subseteq X.mem[st.s]

Effect(X, st) ==
  CASE st.op = "requires" -> RequiresF(X, st.x, st.A, st.f1)
    [] st.op = "add" -> AddF(X, st.s, {st.x})
    [] st.op = "update" -> AddF(X, st.s, st.A)
    [] st.op = "remove" -> IF RemoveRaises(X, st.s, st.x) THEN X ELSE RemoveF(X, st.s, st.x)
    [] st.op = "sanitize" -> SanitizeF(UW, X, st.s)
    [] st.op = "bypass" -> IF BypassRaises(X, st.s, st.x) THEN X ELSE BypassF(X, st.s, st.x)
    [] st.op = "keep_only" -> KeepOnlyF(UW, X, st.s, st.A)
    [] st.op = "keep_between" -> KeepBetweenF(UW, X, st.s, st.A, st.B, st.f1, st.f2)
    [] OTHER -> X

WInit == G = Init0 /\ hist = <<>> /\ last = [op |-> "none"]
WNext == /\ Len(hist) < Depth
         /\ \E st \in Menu(G) :
              /\ Legal(G, st)
              /\ G' = Effect(G, st)
              /\ last' = st
              \* every step is followed by the queries, on the scheduler it touched or another one
              /\ \E qs \in RandomSubset(1, {t \in Scheds : G'.mem[t] # {}} \cup {1}) : \E qA \in RandomSubset(1, Small(G'.mem[qs])) :
                   hist' = Append(hist, st @@ [qs |-> IF st.s # 0 /\ qA = {} THEN st.s ELSE qs, qA |-> qA])
WSpec == WInit /\ [][WNext]_wvars

-----------------------------------------------------------------------------
(* design-level properties of the walk                                      *)

(* the walk never makes the tree a graph: one owner per object, no scheduler *)
(* below itself (the generator's own sanity)                                 *)
Inv_Tree == /\ \A s, t \in Scheds : s # t => G.mem[s] \cap G.mem[t] = {}
            /\ \A s \in Scheds : s \notin Anc(G, s)

(* sanitize(): closes the whole tree below s, keeps every member, removes    *)
(* only dangling requirements, is idempotent, and answers truthfully         *)
P_Sanitize ==
  [][last'.op = "sanitize" =>
       LET s == last'.s IN
         /\ G'.mem = G.mem
         /\ ClosedDeep(UW, G', s)
         /\ \A x \in 1..N : G'.req[x] \subseteq G.req[x]
         /\ SanitizeF(UW, G', s) = G'
         /\ (SanitizeRet(UW, G, s) <=> ClosedDeep(UW, G, s))]_wvars

(* bypass_and_remove(j) of a member: removes exactly j, nobody requires j any *)
(* more among the members, and on a closed acyclic level must-run-before is   *)
(* preserved among the others                                                 *)
P_Bypass ==
  [][(last'.op = "bypass" /\ last'.x \in G.mem[last'.s]) =>
       LET s == last'.s  j == last'.x IN
         /\ G'.mem[s] = G.mem[s] \ {j}
         /\ \A t \in Scheds \ {s} : G'.mem[t] = G.mem[t]
         /\ \A x \in G'.mem[s] : j \notin G'.req[x]
         /\ (Closed(G, s) /\ Acyclic(G, s)) =>
               /\ Closed(G', s) /\ Acyclic(G', s)
               /\ \A a, b \in G'.mem[s] : Before(G', s, a, b) <=> Before(G, s, a, b)]_wvars

(* keep_only / keep_only_between: what remains is a subset, closed in the     *)
(* whole tree below s, with the original requirements among the kept jobs;    *)
(* an acyclic level stays acyclic                                             *)
P_Keep ==
  [][last'.op \in {"keep_only", "keep_between"} =>
       LET s == last'.s IN
         /\ G'.mem[s] \subseteq G.mem[s]
         /\ ClosedDeep(UW, G', s)
         /\ \A x \in G'.mem[s] : G'.req[x] = G.req[x] \cap G'.mem[s]
         /\ (Acyclic(G, s) => Acyclic(G', s))
         /\ last'.op = "keep_only" => G'.mem[s] = G.mem[s] \cap last'.A]_wvars

(* the calls that only look leave the graph alone; failed calls too           *)
P_Readonly ==
  [][(\/ last'.op \in {"scan", "display"}
      \/ (last'.op = "remove" /\ last'.x \notin G.mem[last'.s])
      \/ (last'.op = "bypass" /\ last'.x \notin G.mem[last'.s])) => G' = G]_wvars

(* cycle detection is about the graph as it is now: an edit that removes the  *)
(* last cycle makes the level scannable again, and scannable = acyclic         *)
Inv_Scan == \A s \in Scheds : Scannable(G, s) <=> Acyclic(G, s)

SetsAsSeqs(X) == [mem |-> [x \in 1..N |-> X.mem[x]], req |-> [x \in 1..N |-> X.req[x]]]
Report == IF Len(hist) = Depth THEN PrintT("HIST|" \o ToJson([init |-> SetsAsSeqs(Init0), steps |-> hist])) ELSE TRUE
=============================================================================
