SPECIFICATION PSpec
CONSTRAINT Report
CHECK_DEADLOCK FALSE
