"""
Random construction programs for C19 (model-free generator: it only tracks
which objects exist, never what they require).
"""

import random

NONE = {"t": "none"}


def obj(i):
    return {"t": "obj", "id": i}


def coll(kind, items):
    return {"t": kind, "items": items}


def program(rng, pid, profile=None):
    pf = profile or {}
    njobs = rng.randint(2, pf.get("max_jobs", 6))
    nseq = rng.randint(0, pf.get("max_seq", 3))
    nsched = rng.randint(0, 2)
    kinds = ["job"] * njobs + ["seq"] * nseq + \
        [rng.choice(["sched", "sched", "pure"]) for _ in range(nsched)]
    order = list(range(1, len(kinds) + 1))
    rng.shuffle(order)
    # make sure a couple of jobs exist early
    order.sort(key=lambda i: (kinds[i - 1] != "job") * rng.random())
    made = []
    steps = []
    adds = []      # (job id, args) of earlier requires(add) statements

    def joblike():
        return [i for i in made if kinds[i - 1] in ("job", "sched")]

    def seqs():
        return [i for i in made if kinds[i - 1] == "seq"]

    def scheds():
        return [i for i in made if kinds[i - 1] in ("sched", "pure")]

    def leaf():
        pool = joblike() + seqs()
        if not pool or rng.random() < 0.12:
            return NONE
        return obj(rng.choice(pool))

    def tree(depth=0):
        if depth == 0 and rng.random() < 0.15:
            # a bare scheduler (possibly still empty) or sequence as the whole argument
            pool = [i for i in made if kinds[i - 1] in ("sched", "seq")]
            if pool:
                return obj(rng.choice(pool))
        if depth >= 3 or rng.random() < 0.55:
            return leaf()
        kind = rng.choice(["list", "tuple", "set"])
        items = [tree(depth + 1) for _ in range(rng.randint(0, 3))]
        if kind == "set":
            # a python set cannot hold lists or sets, nor None twice
            items = [x for x in items if x["t"] in ("obj", "none", "tuple")]
            seen, uniq = set(), []
            for x in items:
                key = repr(x)
                if key not in seen:
                    seen.add(key)
                    uniq.append(x)
            items = [x for x in uniq if x["t"] != "tuple" or all(y["t"] in ("obj", "none") for y in x["items"])]
        return coll(kind, items)

    def flat_args(maxlen=4):
        out = []
        for _ in range(rng.randint(0, maxlen)):
            r = rng.random()
            if r < 0.1:
                out.append(NONE)
            elif r < 0.15:
                out.append(coll("list", [leaf()]))      # silently ignored by the API
            else:
                pool = joblike() + seqs()
                out.append(obj(rng.choice(pool)) if pool else NONE)
        return out

    def st(op, ident, args=None, req=None, sched=0, flag=False, x=0):
        return {"op": op, "id": ident, "args": args or [], "req": req or NONE,
                "sched": sched, "flag": flag, "x": x}

    pending = list(order)
    nsteps = rng.randint(3, pf.get("max_steps", 12))
    while len(steps) < nsteps or (pending and len(steps) < nsteps + 4):
        choices = []
        if pending:
            choices += ["new"] * 4
        if joblike():
            choices += ["requires"] * 3
        if seqs():
            choices += ["append"] * 3 + ["seqrequires"]
        if scheds():
            choices += ["add", "update", "remove"]
        if not choices:
            break
        what = rng.choice(choices)
        if what == "new":
            i = pending.pop(0)
            k = kinds[i - 1]
            sch = rng.choice(scheds()) if scheds() and rng.random() < 0.4 else 0
            if k == "job":
                steps.append(st("newjob", i, req=tree() if rng.random() < 0.6 else NONE,
                                sched=sch, flag=rng.random() < 0.5))
            elif k == "seq":
                steps.append(st("newseq", i, args=flat_args(), req=tree() if rng.random() < 0.5 else NONE,
                                sched=sch))
            else:
                steps.append(st("newsched", i, args=flat_args(3) if rng.random() < 0.6 else [],
                                req=tree() if rng.random() < 0.4 else NONE,
                                sched=sch if k == "sched" else 0))
            made.append(i)
        elif what == "requires":
            j = rng.choice(joblike())
            remove = rng.random() < 0.35
            mine = [a for (jj, a) in adds if jj == j]
            if remove and mine and rng.random() < 0.75:
                args = rng.choice(mine)
            else:
                args = [tree() for _ in range(rng.randint(1, 3))]
            steps.append(st("requires", j, args=args, flag=remove))
            if not remove:
                adds.append((j, args))
        elif what == "append":
            steps.append(st("append", rng.choice(seqs()), args=flat_args(3)))
        elif what == "seqrequires":
            steps.append(st("seqrequires", rng.choice(seqs()),
                            args=[tree() for _ in range(rng.randint(1, 2))]))
        elif what == "add":
            p = rng.choice(scheds())
            pool = [i for i in joblike() + seqs() if i != p]
            arg = obj(rng.choice(pool)) if pool and rng.random() < 0.9 else rng.choice([NONE, coll("list", [leaf()])])
            steps.append(st("add", p, args=[arg]))
        elif what == "update":
            p = rng.choice(scheds())
            args = [a for a in flat_args(3) if a.get("id") != p]
            steps.append(st("update", p, args=args, x=rng.randrange(4)))
        else:
            p = rng.choice(scheds())
            pool = [i for i in joblike() if i != p]
            if pool:
                steps.append(st("remove", p, x=rng.choice(pool)))
    return {"pid": pid, "kind": kinds, "steps": steps}


def seq_then_edit(rng, pid):
    """a Sequence registered in a scheduler (scheduler=), a member of it taken out of that
    scheduler (or moved to another one), then the sequence grows: what the sequence held
    earlier is none of append()'s business"""
    def step(op, ident, args=None, req=None, sched=0, flag=False, x=0):
        return {"op": op, "id": ident, "args": args or [], "req": req or NONE, "sched": sched,
                "flag": flag, "x": x}
    k = rng.randint(2, 3)
    extra = rng.randint(1, 2)
    kinds = ["job"] * (k + extra) + ["seq", rng.choice(["sched", "pure"]), "sched"]
    seq, s1, s2 = k + extra + 1, k + extra + 2, k + extra + 3
    steps = [step("newsched", s1), step("newsched", s2)]
    for j in range(1, k + extra + 1):
        steps.append(step("newjob", j, flag=rng.random() < 0.5))
    steps.append(step("newseq", seq, args=[obj(j) for j in range(1, k + 1)], sched=s1))
    gone = rng.randint(1, k)
    steps.append(step("remove", s1, x=gone))
    if rng.random() < 0.5:
        steps.append(step("add", s2, args=[obj(gone)]))
    for j in range(k + 1, k + extra + 1):
        steps.append(step("append", seq, args=[obj(j)] if rng.random() < 0.7 else [coll("list", [obj(j)])]))
    if rng.random() < 0.4:
        steps.append(step("append", seq, args=[]))
    return {"pid": pid, "kind": kinds, "steps": steps}


def programs(tier, seed):
    rng = random.Random("build-%s-%d" % (tier, seed))
    count = 3000 if tier == "quick" else 60000
    out = [seq_then_edit(rng, 0) for _ in range(60 if tier == "quick" else 600)]
    for i in range(count):
        prof = None if i % 3 else {"max_jobs": 4, "max_seq": 3, "max_steps": 8}
        out.append(program(rng, i + 1, prof))
    return out
