"""setup_cmd: checks that the tool chain answers and that every specification parses"""
import glob
import os
import subprocess
import sys

ROOT = os.path.dirname(os.path.dirname(os.path.abspath(__file__)))


def main(_scratch):
    ok = True
    for mod in sorted(glob.glob(os.path.join(ROOT, "spec", "*.tla"))):
        proc = subprocess.run(["java", "-cp", "/opt/veriftools/tla/tla2tools.jar:/opt/veriftools/tla/CommunityModules-deps.jar",
                               "tla2sany.SANY", os.path.basename(mod)], cwd=os.path.join(ROOT, "spec"),
                              stdout=subprocess.PIPE, stderr=subprocess.STDOUT, text=True)
        bad = proc.returncode != 0 or "*** Errors" in proc.stdout or "Fatal" in proc.stdout
        print("SANY %-24s %s" % (os.path.basename(mod), "FAILED" if bad else "ok"))
        if bad:
            print(proc.stdout[-2000:])
            ok = False
    proc = subprocess.run(["/venv/bin/python", "-c", "import sys; sys.path.insert(0, '/repo'); import asynciojobs; print(asynciojobs.__file__)"],
                          stdout=subprocess.PIPE, stderr=subprocess.STDOUT, text=True)
    print("package:", proc.stdout.strip())
    ok = ok and proc.returncode == 0
    return 0 if ok else 2
