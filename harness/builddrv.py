"""
Interprets construction programs with the real asynciojobs classes and records
after every statement the exception (if any) and the full projected state.

Usage: builddrv.py <programs.json> <out.json>

A program: {"pid", "kind": [...], "steps": [{"op", "id", "args", "req", "sched",
            "flag", "x"}]};   objects are 1..N, created by the new* statements.
Argument trees: {"t": "none"} | {"t": "obj", "id": i} |
                {"t": "list" | "tuple" | "set", "items": [...]}
"""

import contextlib
import io
import json
import os
import signal
import sys
import warnings

REPO = os.environ.get("VERIF_REPO", "/repo")
sys.path.insert(0, REPO)
warnings.simplefilter("ignore")

import asynciojobs                                      # noqa: E402
from asynciojobs import AbstractJob, Job, Scheduler, PureScheduler, Sequence  # noqa: E402

assert os.path.realpath(asynciojobs.__file__).startswith(os.path.realpath(REPO))


class Interp:
    def __init__(self, prog):
        self.kind = prog["kind"]
        self.n = len(self.kind)
        self.obj = {}
        self.ident = {}
        self.coros = []

    def value(self, tree):
        t = tree["t"]
        if t == "none":
            return None
        if t == "obj":
            return self.obj[tree["id"]]
        items = [self.value(x) for x in tree["items"]]
        if t == "list":
            return items
        if t == "tuple":
            return tuple(items)
        if t == "set":
            return set(items)
        raise ValueError(t)

    def reg(self, i, o):
        self.obj[i] = o
        self.ident[id(o)] = i

    def ids(self, coll):
        return [self.ident.get(id(o), 0) for o in coll]

    def project(self):
        req, mem, seq = [], [], []
        for i in range(1, self.n + 1):
            o = self.obj.get(i)
            req.append(sorted(self.ids(o.required)) if isinstance(o, AbstractJob) else [])
            mem.append(sorted(self.ids(o.jobs)) if isinstance(o, PureScheduler) else [])
            seq.append(self.ids(o.jobs) if isinstance(o, Sequence) else [])
        return {"req": req, "mem": mem, "seq": seq}

    def step(self, st):
        op = st["op"]
        exc = "none"
        try:
            args = [self.value(a) for a in st["args"]]
            reqv = self.value(st["req"])
            sched = self.obj.get(st["sched"]) if st["sched"] else None
            if op == "newjob":
                if st["flag"]:
                    async def body():
                        return None
                    coro = body()
                    self.coros.append(coro)
                    o = Job(coro, required=reqv, scheduler=sched, label="o%d" % st["id"])
                else:
                    o = AbstractJob(required=reqv, scheduler=sched, label="o%d" % st["id"])
                self.reg(st["id"], o)
            elif op == "newsched":
                if self.kind[st["id"] - 1] == "pure":
                    o = PureScheduler(*args)
                else:
                    o = Scheduler(*args, required=reqv, scheduler=sched, label="o%d" % st["id"])
                self.reg(st["id"], o)
            elif op == "newseq":
                o = Sequence(*args, required=reqv, scheduler=sched)
                self.reg(st["id"], o)
            elif op == "append":
                self.obj[st["id"]].append(*args)
            elif op == "requires":
                got = self.obj[st["id"]].requires(*args, remove=st["flag"])
                if got is not self.obj[st["id"]]:
                    exc = "bad-return"
            elif op == "seqrequires":
                self.obj[st["id"]].requires(*args)
            elif op == "add":
                got = self.obj[st["id"]].add(args[0])
                if got is not args[0]:
                    exc = "bad-return"
            elif op == "update":
                # any collection of schedulables will do: list, tuple, set, iterator
                coll = [args, tuple(args), None, iter(args)][st["x"] % 4]
                if coll is None:
                    try:
                        coll = set(args)
                    except TypeError:        # an unhashable placeholder (a list) among them
                        coll = args
                got = self.obj[st["id"]].update(coll)
                if got is not self.obj[st["id"]]:
                    exc = "bad-return"
            elif op == "remove":
                self.obj[st["id"]].remove(self.obj[st["x"]])
            else:
                exc = "unknown-op"
        except BaseException as err:                    # pylint: disable=W0703
            exc = type(err).__name__
        return exc


class WallClock(BaseException):
    """a call into the library is taking real time (it loops, or waits for something)"""


def _alarm(_signum, _frame):
    raise WallClock()


def run_program(item):
    signal.signal(signal.SIGALRM, _alarm)
    signal.setitimer(signal.ITIMER_REAL, 15, 15)
    try:
        return _run_program(item)
    finally:
        signal.setitimer(signal.ITIMER_REAL, 0)


def _run_program(prog):
    sink = io.StringIO()
    steps = []
    with contextlib.redirect_stdout(sink):
        itp = Interp(prog)
        dead = False
        for st in prog["steps"]:
            exc = "WallClock" if dead else itp.step(st)
            dead = dead or exc == "WallClock"
            rec = dict(st)
            rec["exc"] = exc
            rec["post"] = itp.project()
            steps.append(rec)
        for coro in itp.coros:
            coro.close()
    return {"pid": prog["pid"], "kind": prog["kind"], "steps": steps}


def main(argv):
    with open(argv[1]) as inp:
        progs = json.load(inp)
    out = [run_program(p) for p in progs]
    with open(argv[2], "w") as outp:
        json.dump(out, outp, separators=(",", ":"))


if __name__ == "__main__":
    main(sys.argv)
