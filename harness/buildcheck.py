"""C19: construction programs interpreted by the real classes, validated by TLC against Build.tla"""

import json
import time

import structcheck
import buildfam

BUILD_ATTR = [(r".*", r".*", ["C19"])]


KK = ["job", "job", "job", "job", "seq", "seq", "sched", "pure"]
PROG = __import__("re").compile(r'^"PROG\|(.*)"$')


def generated_programs(count, seed, workdir):
    """spec -> code: programs built statement by statement by TLC (-simulate on MC_Build),
    with the design invariants of Build.tla checked on the way"""
    import tlc
    rc, out = tlc.run("MC_Build.tla", "MC_Build.cfg", workers=1, scratch=workdir, timeout=600,
                      extra=["-simulate", "num=%d" % max(50, count // 40), "-depth", "12", "-seed", str(seed + 7)])
    if tlc.violated(out):
        raise tlc.TlcFailure("Build.tla violates its own invariant:\n" + out[-3000:])
    progs, seen = [], set()
    for line in out.splitlines():
        m = PROG.match(line)
        if not m or m.group(1) in seen:
            continue
        seen.add(m.group(1))
        steps = json.loads(m.group(1).replace('\\"', '"'))
        progs.append({"pid": 0, "kind": KK, "steps": steps})
        if len(progs) >= count:
            break
    return progs


def run(tier, seed, workdir):
    started = time.time()
    progs = buildfam.programs(tier, seed)
    tlcgen = generated_programs(1500 if tier == "quick" else 20000, seed, workdir)
    progs += tlcgen
    for i, prog in enumerate(progs):
        prog["pid"] = i + 1
    recs, rejected, gen, dist = structcheck.validate_all(progs, workdir, "builddrv.py",
                                                         "BuildTrace.tla", "BuildTrace.cfg")
    seen = set()
    nontriv = 0
    ops = {}
    for rec in recs:
        key = json.dumps([rec["kind"], [[s["op"], s["id"], s["args"], s["req"], s["sched"], s["flag"], s["x"]]
                                        for s in rec["steps"]]], sort_keys=True)
        if key in seen:
            continue
        seen.add(key)
        kinds = {s["op"] for s in rec["steps"]}
        for s in rec["steps"]:
            ops[s["op"] + ":" + s["exc"]] = ops.get(s["op"] + ":" + s["exc"], 0) + 1
        # non-trivial: uses a Sequence or nested requirement arguments
        if kinds & {"newseq", "append", "seqrequires"} or \
                any(a["t"] in ("list", "tuple", "set") for s in rec["steps"] for a in s["args"]):
            nontriv += 1
    samples = [{"kind": r["kind"], "steps": [{k: v for k, v in s.items() if k != "post"}
                                             for s in r["steps"][:4]]} for r in recs[:2]]
    cov = {"states": max(dist, 1), "transitions": max(gen, 1),
           "rule": "seeded random construction programs (3-16 statements, <= 6 jobs, <= 3 sequences, <= 2 "
                   "schedulers, arguments nested to depth 3) interpreted by the real classes; after every "
                   "statement TLC compares exception, requirements, members and sequence contents with "
                   "Build.tla; distinct = distinct program text; non-trivial = uses a Sequence or a nested "
                   "collection argument",
           "statement_outcomes": ops, "programs_generated_by_tlc": len(tlcgen), "exhaustive": False}
    return structcheck.finish("C19", tier, seed, started, len(progs), recs, rejected, BUILD_ATTR, cov,
                              nontriv, samples)
