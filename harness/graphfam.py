"""
Families of graph histories (model-free: explicit arguments for the exhaustive
families, "auto" steps resolved by the driver against the real state for the
random ones).  Objects are 1..n; object 1 is always the top scheduler.
"""

import itertools
import random


def universe(kinds, forever=None):
    n = len(kinds)
    return {"n": n, "kind": list(kinds), "forever": list(forever or [False] * n)}


def hist(uni, mem, req, steps, hashes=None, seed=0):
    n = uni["n"]
    return {"hid": 0, "U": uni, "hash": hashes,
            "init": {"mem": [sorted(mem.get(i, [])) for i in range(1, n + 1)],
                     "req": [sorted(req.get(i, [])) for i in range(1, n + 1)]},
            "steps": steps, "seed": seed}


def digraphs(k, loops=False):
    """all digraphs on k nodes as {node: [required nodes]} with nodes 0..k-1"""
    pairs = [(i, j) for i in range(k) for j in range(k) if loops or i != j]
    for mask in range(1 << len(pairs)):
        req = {i: [] for i in range(k)}
        for b, (i, j) in enumerate(pairs):
            if mask >> b & 1:
                req[i].append(j)
        yield req


def dags(k):
    """all DAGs on k nodes up to relabelling (edges from higher to lower index)"""
    pairs = [(i, j) for i in range(k) for j in range(i)]
    for mask in range(1 << len(pairs)):
        req = {i: [] for i in range(k)}
        for b, (i, j) in enumerate(pairs):
            if mask >> b & 1:
                req[i].append(j)
        yield req


def subsets(pool, kmin, kmax):
    for k in range(kmin, kmax + 1):
        for c in itertools.combinations(pool, k):
            yield list(c)


def perm(rng, n):
    p = list(range(1, n + 1))
    rng.shuffle(p)
    return p


Q = {"op": "query", "qs": 1, "qA": []}


def placed(graph, k, level, top_kind, rng):
    """the k-node graph `graph` placed at nesting level 1, 2 or 3"""
    if level == 1:
        kinds = [top_kind] + ["job"] * k
        base = 2
        mem = {1: list(range(2, k + 2))}
        req = {}
        qs = [1]
    elif level == 2:
        # 1 top {2 job, 3 sched requires 2}; 3 {graph}
        kinds = [top_kind, "job", "sched"] + ["job"] * k
        base = 4
        mem = {1: [2, 3], 3: list(range(4, k + 4))}
        req = {3: [2]}
        qs = [1, 3]
    else:
        # 1 top {2 sched}; 2 {3 job, 4 sched requires 3}; 4 {graph}
        kinds = [top_kind, "sched", "job", "sched"] + ["job"] * k
        base = 5
        mem = {1: [2], 2: [3, 4], 4: list(range(5, k + 5))}
        req = {4: [3]}
        qs = [1, 2, 4]
    for i, rs in graph.items():
        req[base + i] = [base + r for r in rs]
    steps = []
    for s in qs:
        members = mem[s]
        steps.append({"op": "query", "qs": s, "qA": [rng.choice(members)] if members else []})
    return hist(universe(kinds), mem, req, steps, perm(rng, len(kinds)))


def fam_cycles(rng, tier):
    """C15: every digraph (no self-loop: the API refuses them) on <= 3 (4) nodes
    at every level of a tree, under a Scheduler and under a PureScheduler"""
    out = []
    kmax = 3 if tier == "quick" else 4
    for k in range(1, kmax + 1):
        for graph in digraphs(k):
            for level in (1, 2, 3):
                for top in ("sched", "pure"):
                    if k == 4 and (level, top) not in ((1, "sched"), (2, "pure"), (3, "sched")):
                        continue
                    out.append(placed(graph, k, level, top, rng))
    return out


def fam_rehome(rng, count):
    """C15: jobs that were scanned r times in one scheduler are moved into a fresh (nested)
    scheduler, which is then scanned and queried; whatever a scan leaves on the jobs must
    not survive the move"""
    out = []
    for idx in range(count):
        k = rng.randint(2, 4)
        graph = rng.choice(list(dags(k)))
        # 1 top {jobs..., 2+k: empty nested scheduler B}
        kinds = ["sched"] + ["job"] * k + ["sched"]
        jobs = list(range(2, k + 2))
        b = k + 2
        # B starts outside the tree (a member of A would be scanned along with A)
        mem = {1: jobs}
        req = {2 + i: [2 + r for r in rs] for i, rs in graph.items()}
        steps = [{"op": "scan", "s": 1} for _ in range(idx % 5)]
        steps += [{"op": "scan", "s": b} for _ in range((idx // 5) % 3)]
        for j in jobs:
            steps.append({"op": "remove", "s": 1, "x": j})
        steps.append({"op": "update", "s": b, "A": jobs})
        if idx % 2:
            steps.append({"op": "add", "s": 1, "x": b})
        steps.append({"op": "query", "qs": b, "qA": [jobs[0]]})
        steps.append({"op": "query", "qs": 1, "qA": [b] if idx % 2 else []})
        out.append(hist(universe(kinds), mem, req, steps, perm(rng, k + 2)))
    return out


def fam_cycle_siblings(rng, count):
    """C15: two to four sibling nested schedulers (optionally chained) of which a random,
    non-empty, proper subset holds a cycle: the verdict of the level above must not depend on
    which sibling is scanned last (after C15-m15)"""
    out = []
    for idx in range(count):
        nsib = rng.randint(2, 4)
        kinds = ["sched" if idx % 2 else "pure"]
        mem = {1: []}
        req = {}
        sib = []
        for _ in range(nsib):
            kinds.append("sched")
            s = len(kinds)
            mem[1].append(s)
            kinds += ["job", "job"]
            mem[s] = [s + 1, s + 2]
            sib.append(s)
        cyclic = set(rng.sample(sib, rng.randint(1, nsib - 1)))
        for s in sib:
            req[s + 2] = [s + 1]
            if s in cyclic:
                req[s + 1] = [s + 2]
        if rng.random() < 0.5:
            for a, b in zip(sib, sib[1:]):
                req[b] = [a]
        steps = [{"op": "query", "qs": 1, "qA": [rng.choice(sib)]}] + \
                [{"op": "query", "qs": s, "qA": [s + 1]} for s in sib]
        out.append(hist(universe(kinds), mem, req, steps, perm(rng, len(kinds))))
    return out


def fam_backforth(rng, count):
    """C15: graphs mutated back and forth between cyclic and acyclic"""
    out = []
    for _ in range(count):
        k = rng.randint(2, 6)
        graph = rng.choice(list(dags(min(k, 4)))) if k <= 4 else \
            {i: [j for j in range(i) if rng.random() < 0.4] for i in range(k)}
        kinds = ["sched"] + ["job"] * k
        mem = {1: list(range(2, k + 2))}
        req = {2 + i: [2 + r for r in rs] for i, rs in graph.items()}
        steps = [dict(Q)]
        for _ in range(rng.randint(2, 6)):
            a, b = rng.sample(range(2, k + 2), 2)
            steps.append({"op": "requires", "x": a, "A": [b], "f1": False, "f2": rng.random() < 0.3, "qs": 1, "qA": [a]})
            if rng.random() < 0.7:
                steps.append({"op": "requires", "x": a, "A": [b], "f1": True, "f2": rng.random() < 0.4, "qs": 1, "qA": [b]})
        out.append(hist(universe(kinds), mem, req, steps, perm(rng, k + 1)))
    return out


def fam_sanitize(rng, tier):
    """C16: a nested tree with every placement of one or two arbitrary extra
    edges (to a job of no scheduler, of a sibling / parent / child scheduler, to
    or from nested schedulers themselves); sanitize() twice"""
    out = []
    # 1 top {2,3,4}; 4 nested {5,6,7}; 7 nested {8}; 9 outsider
    kinds = ["sched", "job", "job", "sched", "job", "job", "sched", "job", "job"]
    mem = {1: [2, 3, 4], 4: [5, 6, 7], 7: [8]}
    base = {3: [2], 4: [3], 6: [5], 7: [6]}
    edges = [(a, b) for a in range(2, 10) for b in range(2, 10) if a != b]
    combos = [()] + [(e,) for e in edges]
    pairs = [(e, f) for i, e in enumerate(edges) for f in edges[i + 1:]]
    if tier == "quick":
        pairs = rng.sample(pairs, 500)
    combos += pairs
    tops = ["sched", "pure"]
    for idx, extra in enumerate(combos):
        req = {i: list(rs) for i, rs in base.items()}
        for a, b in extra:
            req.setdefault(a, [])
            if b not in req[a]:
                req[a].append(b)
        k2 = list(kinds)
        k2[0] = tops[idx % 2]
        which = rng.choice([1, 1, 1, 4])
        vb = idx % 3 == 0
        steps = [{"op": "sanitize", "s": which, "qs": which, "qA": [], "f1": vb},
                 {"op": "sanitize", "s": which, "qs": 1, "qA": [], "f1": vb},
                 {"op": "sanitize", "s": 1, "f1": vb}]
        out.append(hist(universe(k2), mem, req, steps, perm(rng, 9)))
    return out


def fam_sanitize_siblings(rng, count):
    """C16: several sibling nested schedulers that each need a removal while the level
    above them is already closed (or not), under both scheduler classes"""
    out = []
    kinds = ["sched", "job", "sched", "job", "job", "sched", "job", "job", "sched", "job", "job", "job"]
    mem = {1: [2, 3, 6, 9], 3: [4, 5], 6: [7, 8], 9: [10]}
    inner = {3: [4, 5], 6: [7, 8], 9: [10]}
    for idx in range(count):
        req = {5: [4], 8: [7], 6: [3]}
        dirty = rng.sample([3, 6, 9], rng.randint(1, 3))
        for s in dirty:
            for _ in range(rng.randint(1, 2)):
                a = rng.choice(inner[s])
                b = rng.choice([x for x in range(2, 13) if x not in inner[s] and x != a])
                req.setdefault(a, [])
                if b not in req[a]:
                    req[a].append(b)
        if rng.random() < 0.3:
            req.setdefault(2, []).append(rng.choice([11, 12, 4, 7]))
        if rng.random() < 0.3:
            # a dangling requirement carried by a nested scheduler itself
            s = rng.choice([3, 6, 9])
            req.setdefault(s, [])
            req[s].append(rng.choice([11, 12, 4, 7, 10]))
            req[s] = [x for x in dict.fromkeys(req[s]) if x not in inner[s] and x != s]
        k2 = list(kinds)
        k2[0] = "sched" if idx % 2 else "pure"
        vb = rng.random() < 0.4
        steps = [{"op": "sanitize", "s": 1, "qs": 1, "qA": [], "f1": vb},
                 {"op": "sanitize", "s": 1, "f1": vb},
                 {"op": "sanitize", "s": rng.choice([3, 6, 9]), "f1": vb}]
        h = hist(universe(k2), mem, req, steps, perm(rng, 12))
        if rng.random() < 0.5:
            # jobs of different schedulers are given the same requirement (also legitimate ones
            # for some of them), as one shared set object
            common = rng.choice([[2], [4], [11], [2, 11]])
            for x in rng.sample([3, 4, 5, 7, 8, 10, 6], 3):
                if not h["init"]["req"][x - 1] and x not in common:
                    h["init"]["req"][x - 1] = list(common)
            h["sharedset"] = True
        out.append(h)
    return out


def fam_queries(rng, tier):
    """C17: every DAG on <= 4 nodes, every non-empty set of start jobs, forever flags"""
    out = []
    kmax = 4
    for k in range(1, kmax + 1):
        for graph in dags(k):
            flagsets = list(itertools.product([False, True], repeat=k))
            if tier == "quick":
                flagsets = rng.sample(flagsets, min(3, len(flagsets)))
            for flags in flagsets:
                kinds = [rng.choice(["sched", "pure"])] + ["job"] * k
                if k >= 2 and rng.random() < 0.3:
                    kinds[rng.randint(1, k)] = "sched"      # an empty nested scheduler as a node
                mem = {1: list(range(2, k + 2))}
                req = {2 + i: [2 + r for r in rs] for i, rs in graph.items()}
                steps = [{"op": "query", "qs": 1, "qA": a} for a in subsets(range(2, k + 2), 1, k)]
                out.append(hist(universe(kinds, [False] + list(flags)), mem, req, steps,
                                perm(rng, k + 1)))
    return out


def fam_surgery(rng, tier):
    """C18: every DAG on <= 4 nodes; every bypass target; every starts / ends of
    size <= 2 with both keep flags; every keep_only subset"""
    out = []
    for k in range(1, 5):
        for graph in dags(k):
            kinds = ["sched"] + ["job"] * k
            mem = {1: list(range(2, k + 2))}
            req = {2 + i: [2 + r for r in rs] for i, rs in graph.items()}
            jobs = list(range(2, k + 2))

            def one(step):
                step.update({"s": 1, "qs": 1, "qA": [jobs[0]]})
                kk = list(kinds)
                kk[0] = rng.choice(["sched", "pure"])
                if k >= 2 and rng.random() < 0.3:
                    # one node of the graph is a nested scheduler that has no member (yet)
                    kk[rng.choice(jobs) - 1] = "sched"
                out.append(hist(universe(kk), mem, req, [step], perm(rng, k + 1)))
            for j in jobs:
                one({"op": "bypass", "x": j})
            ks = list(subsets(jobs, 0, k))
            if tier == "quick" and k == 4:
                ks = rng.sample(ks, 6)
            for a in ks:
                one({"op": "keep_only", "A": a, "f1": rng.random() < 0.5})
            small = list(subsets(jobs, 0, 2))
            combos = [(a, b, f1, f2) for a in small for b in small
                      for f1 in (False, True) for f2 in (False, True)]
            if tier == "quick" and k >= 3:
                combos = rng.sample(combos, 24 if k == 4 else 40)
            for a, b, f1, f2 in combos:
                one({"op": "keep_between", "A": a, "B": b, "f1": f1, "f2": f2,
                     "f3": rng.random() < 0.5})
    return out


def fam_double(rng, tier):
    """C18: two operations in a row with no query in between (whatever the first one
    leaves behind is what the second one sees): a query, then every ordered pair of
    bypass targets / a bypass followed by keep_only_between, on every DAG <= 4 nodes"""
    out = []
    for k in range(2, 5):
        for graph in dags(k):
            jobs = list(range(2, k + 2))
            kinds = ["sched"] + ["job"] * k
            mem = {1: jobs}
            req = {2 + i: [2 + r for r in rs] for i, rs in graph.items()}
            pairs = [(x, y) for x in jobs for y in jobs if x != y]
            if tier == "quick" and k == 4:
                pairs = rng.sample(pairs, 5)
            for x, y in pairs:
                steps = [{"op": "query", "qs": 1, "qA": [x]},
                         {"op": "bypass", "s": 1, "x": x},
                         {"op": "bypass", "s": 1, "x": y, "qs": 1, "qA": [z for z in jobs if z not in (x, y)][:1]}]
                out.append(hist(universe(kinds), mem, req, steps, perm(rng, k + 1)))
            # a query, then a requirement between two remaining jobs is dropped, then a cut:
            # nothing recomputes anything in between
            edges = [(2 + i, 2 + r) for i, rs in graph.items() for r in rs]
            for (a, b) in (edges if tier != "quick" else edges[:2]):
                steps = [{"op": "query", "qs": 1, "qA": [b]},
                         {"op": "requires", "x": a, "A": [b], "f1": True},
                         {"op": "keep_between", "s": 1, "A": [b], "B": [], "f1": True, "f2": True, "f3": False,
                          "qs": 1, "qA": [b]}]
                out.append(hist(universe(kinds), mem, req, steps, perm(rng, k + 1)))
            for x in (jobs if tier != "quick" else jobs[:2]):
                rest = [z for z in jobs if z != x]
                steps = [{"op": "query", "qs": 1, "qA": [x]},
                         {"op": "bypass", "s": 1, "x": x},
                         {"op": "keep_between", "s": 1, "A": rest[:1], "B": rest[-1:], "f1": True, "f2": rng.random() < 0.5,
                          "qs": 1, "qA": rest[:1]}]
                out.append(hist(universe(kinds), mem, req, steps, perm(rng, k + 1)))
    return out


def fam_random(rng, count, ops=None, nmax=12):
    """random trees (depth <= 3) and random sequences of API calls ("auto" steps)"""
    ops = (ops or ["requires", "requires", "add", "update", "remove", "sanitize", "bypass",
                   "keep_only", "keep_between", "query"]) + ["display"]
    out = []
    for _ in range(count):
        njobs = rng.randint(2, nmax)
        nsched = rng.randint(0, 3)
        kinds = [rng.choice(["sched", "sched", "pure"])] + ["sched"] * nsched + ["job"] * njobs
        n = len(kinds)
        mem = {1: []}
        owner = {}
        # nested schedulers: chain or siblings, depth <= 3
        depth = {1: 1}
        for s in range(2, 2 + nsched):
            par = rng.choice([p for p in depth if depth[p] < 3])
            depth[s] = depth[par] + 1
            mem.setdefault(par, []).append(s)
            owner[s] = par
            mem.setdefault(s, [])
        for j in range(2 + nsched, n + 1):
            if rng.random() < 0.9:
                par = rng.choice(list(depth))
                mem.setdefault(par, []).append(j)
                owner[j] = par
        req = {}
        for s, members in mem.items():
            ms = sorted(members)
            for i, x in enumerate(ms):
                rs = [y for y in ms[:i] if rng.random() < 0.3]
                if rs:
                    req[x] = rs
        # a few dangling edges
        for _ in range(rng.choice([0, 0, 1, 2])):
            a = rng.randint(2, n)
            b = rng.randint(2, n)
            if a != b:
                req.setdefault(a, [])
                if b not in req[a]:
                    req[a].append(b)
        forever = [False] + [rng.random() < 0.2 for _ in range(n - 1)]
        steps = []
        for _ in range(rng.randint(5, 30)):
            if rng.random() < 0.55:
                steps.append({"op": rng.choice(ops), "auto": True, "qs": "auto", "qA": "auto"})
            else:
                # no query after this edit: whatever the library caches is left as the edit left it
                steps.append({"op": rng.choice(ops), "auto": True})
        out.append(hist(universe(kinds, forever), mem, req, steps, perm(rng, n),
                        seed=rng.randrange(1 << 30)))
    return out


def histories(prop, tier, seed):
    """-> (histories, description)"""
    rng = random.Random("graph-%s-%s-%d" % (prop, tier, seed))
    quick = tier == "quick"
    nrand = 400 if quick else 6000
    if prop == "C15":
        out = fam_cycles(rng, tier) + fam_backforth(rng, 300 if quick else 3000) + \
            fam_rehome(rng, 150 if quick else 1500) + fam_cycle_siblings(rng, 120 if quick else 1500) + \
            fam_random(rng, nrand, ["requires", "requires", "requires", "remove", "add", "query"])
        desc = "all digraphs <= %d nodes at 3 nesting levels under both scheduler classes; " \
               "back-and-forth edge mutations; random histories" % (3 if quick else 4)
    elif prop == "C16":
        out = fam_sanitize(rng, tier) + fam_sanitize_siblings(rng, 300 if quick else 4000) + \
            fam_random(rng, nrand, ["sanitize", "sanitize", "requires", "add", "remove", "keep_only"])
        desc = "nested tree x every placement of <= 2 extra edges (pairs sampled in quick); random histories"
    elif prop == "C17":
        out = fam_queries(rng, tier) + \
            fam_random(rng, nrand, ["query", "query", "requires", "add", "remove", "bypass", "sanitize"])
        desc = "all DAGs <= 4 nodes x all non-empty start sets x forever flags; random edit histories"
    elif prop == "C18":
        out = fam_surgery(rng, tier) + fam_double(rng, tier) + \
            fam_random(rng, nrand, ["bypass", "keep_only", "keep_between", "keep_between", "requires", "sanitize"])
        desc = "all DAGs <= 4 nodes x every bypass target / keep_only subset / starts, ends (size <= 2) " \
               "x keep flags (sampled in quick); random operation sequences on graphs <= 12 nodes"
    else:
        raise KeyError(prop)
    for i, h in enumerate(out):
        h["hid"] = i + 1
    return out, desc
