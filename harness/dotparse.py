"""
Strict parser for the DOT language (the part of it asynciojobs can emit, and a
bit more: any syntactically valid digraph made of node, edge, attribute and
subgraph statements).  Anything else raises DotSyntaxError.

The result is the abstract content of the rendering:
  nodes    [{"id", "cluster", "attrs"}]      cluster = innermost enclosing cluster ("" = top)
  clusters [{"name", "parent", "attrs"}]     attrs from `graph [...]` inside the subgraph
  edges    [{"tail", "head", "attrs"}]

Quoted strings: the only escape un-done here is \\" (DOT keeps every other
backslash sequence for the renderer, which is why the property excludes
labels with backslashes).
"""

import re


class DotSyntaxError(Exception):
    pass


TOKEN = re.compile(r"""
    (?P<ws>\s+)
  | (?P<arrow>->)
  | (?P<punct>[{}\[\]=,;])
  | (?P<quoted>"(?:[^"\\]|\\.)*")
  | (?P<id>[A-Za-z_\x80-\U0010ffff][A-Za-z_0-9\x80-\U0010ffff]*|-?(?:\.[0-9]+|[0-9]+(?:\.[0-9]*)?))
""", re.X | re.S)


def tokenize(text):
    pos = 0
    out = []
    while pos < len(text):
        m = TOKEN.match(text, pos)
        if not m:
            raise DotSyntaxError("unexpected character %r at offset %d" % (text[pos], pos))
        pos = m.end()
        if m.lastgroup == "ws":
            continue
        if m.lastgroup == "quoted":
            raw = m.group()[1:-1]
            out.append(("str", raw.replace('\\"', '"')))
        elif m.lastgroup == "id":
            out.append(("id", m.group()))
        else:
            out.append((m.group(), m.group()))
    return out


class Parser:
    def __init__(self, text):
        self.toks = tokenize(text)
        self.i = 0
        self.nodes = []
        self.node_index = {}
        self.clusters = []
        self.edges = []
        self.top_attrs = {}

    def peek(self):
        return self.toks[self.i] if self.i < len(self.toks) else ("eof", None)

    def take(self, kind=None):
        tok = self.peek()
        if kind is not None and tok[0] != kind:
            raise DotSyntaxError("expected %s, got %r at token %d" % (kind, tok, self.i))
        self.i += 1
        return tok

    def ident(self):
        tok = self.peek()
        if tok[0] in ("id", "str"):
            self.i += 1
            return tok[1]
        raise DotSyntaxError("expected an identifier, got %r at token %d" % (tok, self.i))

    def attr_list(self):
        attrs = {}
        while self.peek()[0] == "[":
            self.take("[")
            while self.peek()[0] != "]":
                key = self.ident()
                self.take("=")
                val = self.ident()
                if key in attrs:
                    raise DotSyntaxError("attribute %s given twice" % key)
                attrs[key] = val
                if self.peek()[0] in (",", ";"):
                    self.take()
            self.take("]")
        return attrs

    def parse(self):
        tok = self.take("id")
        if tok[1] == "strict":
            tok = self.take("id")
        if tok[1] != "digraph":
            raise DotSyntaxError("not a digraph")
        if self.peek()[0] in ("id", "str"):
            self.ident()
        self.body("")
        if self.peek()[0] != "eof":
            raise DotSyntaxError("trailing tokens after the graph")
        return {"nodes": self.nodes, "clusters": self.clusters, "edges": self.edges,
                "top_attrs": self.top_attrs}

    def declare(self, name, cluster, attrs, explicit):
        if name in self.node_index:
            node = self.node_index[name]
            if explicit:
                if node["explicit"]:
                    raise DotSyntaxError("node %s declared twice" % name)
                node["explicit"] = True
                node["cluster"] = cluster
                node["attrs"] = attrs
            return
        node = {"id": name, "cluster": cluster, "attrs": attrs, "explicit": explicit}
        self.node_index[name] = node
        self.nodes.append(node)

    def body(self, cluster):
        self.take("{")
        while self.peek()[0] != "}":
            self.stmt(cluster)
            if self.peek()[0] == ";":
                self.take(";")
        self.take("}")

    def stmt(self, cluster):
        tok = self.peek()
        if tok[0] == "id" and tok[1] == "subgraph":
            self.take()
            name = self.ident()
            if not name.startswith("cluster"):
                raise DotSyntaxError("subgraph %s is not a cluster" % name)
            if any(c["name"] == name for c in self.clusters):
                raise DotSyntaxError("cluster %s declared twice" % name)
            rec = {"name": name, "parent": cluster, "attrs": {}}
            self.clusters.append(rec)
            self.body(name)
            return
        if tok[0] == "id" and tok[1] in ("graph", "node", "edge") and \
                self.toks[self.i + 1][0] == "[":
            self.take()
            attrs = self.attr_list()
            if tok[1] == "graph":
                target = self.top_attrs if cluster == "" else \
                    next(c for c in self.clusters if c["name"] == cluster)["attrs"]
                for key, val in attrs.items():
                    target[key] = val
            elif attrs:
                raise DotSyntaxError("default %s attributes are not expected" % tok[1])
            return
        name = self.ident()
        if self.peek()[0] == "=":
            self.take("=")
            val = self.ident()
            target = self.top_attrs if cluster == "" else \
                next(c for c in self.clusters if c["name"] == cluster)["attrs"]
            target[name] = val
            return
        if self.peek()[0] == "->":
            chain = [name]
            while self.peek()[0] == "->":
                self.take("->")
                chain.append(self.ident())
            attrs = self.attr_list() if self.peek()[0] == "[" else {}
            for a, b in zip(chain, chain[1:]):
                self.declare(a, cluster, {}, False)
                self.declare(b, cluster, {}, False)
                self.edges.append({"tail": a, "head": b, "attrs": dict(attrs)})
            return
        attrs = self.attr_list() if self.peek()[0] == "[" else {}
        self.declare(name, cluster, attrs, True)


def parse(text):
    return Parser(text).parse()
