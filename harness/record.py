"""
Runs scenarios against the real asynciojobs package (imported from the
repository's working tree) under the virtual-time loop and records, for each,
the trace of events observable at the public extension API.

Usage:  record.py <scenarios.json> <traces.json>

A scenario is the `cfg` / `harness` pair of DESIGN.md appendix A; arrays are
indexed by node-1 (node 1 is the top-level scheduler).
"""

import asyncio
import io
import json
import os
import signal
import sys
import warnings
import contextlib

HERE = os.path.dirname(os.path.abspath(__file__))
REPO = os.environ.get("VERIF_REPO", "/repo")
sys.path.insert(0, REPO)
sys.path.insert(0, HERE)

warnings.simplefilter("ignore")
import logging                                          # noqa: E402
logging.getLogger("asyncio").setLevel(logging.CRITICAL)

from vloop import VirtualLoop, Deadlock, Livelock, ClockShim  # noqa: E402

import asynciojobs                                      # noqa: E402
import asynciojobs.purescheduler as _ps                 # noqa: E402
from asynciojobs import AbstractJob, Job, Scheduler, PureScheduler  # noqa: E402

assert os.path.realpath(asynciojobs.__file__).startswith(
    os.path.realpath(REPO)), asynciojobs.__file__

CLOCK = ClockShim()
_ps.time = CLOCK


class VExc(Exception):
    """the exception raised by the body of node `origin`"""

    def __init__(self, origin, message=None):
        if message is None:
            super().__init__("boom-%d" % origin)
        else:
            super().__init__(*message)
        self.origin = origin


class VRuntimeExc(VExc, RuntimeError):
    """same, but a RuntimeError (callers sometimes treat those specially)"""


class VStateExc(VExc, asyncio.InvalidStateError):
    """same, but an asyncio.InvalidStateError (what the Future / Task API itself raises)"""


class VLookupExc(VExc, KeyError):
    """same, but a KeyError (its str() is the repr of its argument)"""


class VTimeoutExc(VExc, TimeoutError):
    """same, but a TimeoutError (what wait_for raises inside a job)"""


EXC_CLASSES = {"runtime": VRuntimeExc, "state": VStateExc, "lookup": VLookupExc, "timeout": VTimeoutExc}


class VBaseExc(BaseException):
    """same, but not derived from Exception (a home-made abort class): asyncio stores it on the
    task like any other, and the package must treat it like any other"""

    def __init__(self, origin, message=None):
        if message is None:
            super().__init__("abort-%d" % origin)
        else:
            super().__init__(*message)
        self.origin = origin


class Awaitable:
    """an awaitable that is not a coroutine object: Job() takes any awaitable"""

    def __init__(self, coro):
        self.coro = coro

    def __await__(self):
        return self.coro.__await__()


class Ret:
    """the object returned by the body of node `origin`"""

    def __init__(self, origin):
        self.origin = origin


class Ctx:
    """one run of one scenario"""

    def __init__(self, sc):
        self.sc = sc
        self.cfg = sc["cfg"]
        self.h = sc.get("harness", {})
        self.n = self.cfg["n"]
        self.ev = []
        self.loop = None
        self.obj = {}
        self.ret = {i: Ret(i) for i in range(1, self.n + 1)}
        self.nbody = {i: 0 for i in range(1, self.n + 1)}
        self.closed = False
        self.coros = []
        self.snapping = bool(sc.get("snap", True))
        self.excs = {}     # id(exception object) -> (object, origin)
        self.pre = False   # the shutdown issued before the run is going on
        self.early = None  # the coroutine object of the top-level run, when created early
        self.left = set()  # nodes whose body has been cancelled or has ended

    # -- scenario accessors (1-based nodes)
    def g(self, key, node):
        return self.cfg[key][node - 1]

    def hk(self, key, node, default):
        arr = self.h.get(key)
        return default if arr is None else arr[node - 1]

    def log(self, kind, node, val="-", num=0, snap=None):
        """v is always a string and i always an integer (TLC compares them)"""
        if self.closed or self.pre:
            return
        evt = {"q": len(self.ev) + 1, "t": self.loop.vtime,
               "k": kind, "n": node, "v": val, "i": num}
        if snap is not None:
            evt["sn"] = snap
        self.ev.append(evt)

    # -- behaviours
    async def never(self):
        await self.loop.create_future()

    def peek(self):
        """harness.peek: somebody looks at the schedulers while they run (a monitoring job
        printing the tree, a debugger): the read-only API must leave the run alone"""
        if not self.h.get("peek") or self.pre:
            return
        for sched in list(self.obj.values()):
            if not isinstance(sched, PureScheduler):
                continue
            try:
                list(sched.entry_jobs())
                list(sched.exit_jobs())
                sched.check_cycles()
                for job in list(sched.jobs)[:2]:
                    sched.successors_downstream(job)
                    sched.predecessors_upstream(job)
                list(sched.iterate_jobs())
                sched.list()
                sched.list_safe()
                sched.stats()
                repr(sched)
                sched.why()
                sched.dot_format()
            except Exception:                           # pylint: disable=W0703
                pass        # known finding K1 (dot_format of some trees); not the subject here

    async def body(self, node):
        self.nbody[node] += 1
        self.log("start", node)
        self.peek()
        dur = self.g("dur", node)
        try:
            if dur < 0:
                await self.never()
            if dur > 0:
                await asyncio.sleep(dur)
            for _ in range(self.hk("k", node, 0)):
                await asyncio.sleep(0)
        except asyncio.CancelledError:
            self.left.add(node)
            self.log("cancel", node)
            cdur = self.g("cdur", node)
            if cdur > 0:
                deadline = self.loop.vtime + cdur
                while self.loop.vtime < deadline:
                    try:
                        await asyncio.sleep(deadline - self.loop.vtime)
                    except asyncio.CancelledError:
                        self.log("recancel", node)
            await self.wait_for_sibling(node)
            if self.cfg.get("cout", ["cancelled"] * self.n)[node - 1] == "exc":
                # the clean-up fails (a `finally:` that raises): the body finishes by raising
                self.log("cancel-raise", node)
                raise VExc(node)
            self.log("cancel-done", node)
            raise
        self.left.add(node)
        if self.g("out", node) == "selfc":
            # the body ends in CancelledError on its own (it awaited something that got cancelled)
            self.log("self-cancel", node)
            self.stall(node)
            raise asyncio.CancelledError()
        if self.g("out", node) == "exc":
            self.log("raise", node)
            self.stall(node)
            # an exception may carry no message at all (a bare assert, TimeoutError())
            klass = VBaseExc if self.h.get("baseexc") and node % 3 != 0 else \
                VRuntimeExc if self.h.get("rterr") is True else EXC_CLASSES.get(self.h.get("rterr"), VExc)
            raise klass(node, () if self.h.get("emptymsg") else None)
        self.log("end", node)
        self.peek()
        self.stall(node)
        if self.h.get("tupleret") and node % 2 == 1:
            # a result is any object: a tuple (empty, or a pair) for instance
            self.ret[node] = () if node % 4 == 1 else (node, "x")
        if self.h.get("awaitable") and node % 2 == 0:
            # the object a body returns may itself be awaitable (a future, a task handle):
            # it is the job's result as it stands, settled (1) or still pending (2)
            fut = self.loop.create_future()
            if self.h.get("awaitable") != 2:
                fut.set_result("inner-%d" % node)
            self.ret[node] = fut
        return self.ret[node]

    async def wait_for_sibling(self, node):
        """cfg.cwait: the clean-up of this cancelled body needs something a sibling holds
        until that sibling is cancelled too (or has ended): a scheduler cancels all the
        tasks it gives up before it awaits any of them, and such jobs rely on it"""
        other = self.cfg.get("cwait", [0] * self.n)[node - 1]
        if not other:
            return
        spins = 0
        while True:
            task = getattr(self.obj[other], "_task", None)
            if other in self.left or (task is not None and task.done()):
                return
            spins += 1
            try:
                if spins > 30:
                    await self.never()      # the sibling is not being cancelled: stuck for good
                await asyncio.sleep(0)
            except asyncio.CancelledError:
                self.log("recancel", node)

    def stall(self, node):
        """the body keeps the event loop busy for a while after it has decided
        its outcome (a blocking call): the clock moves on while every other
        callback is kept waiting"""
        amount = self.hk("stall", node, 0)
        if amount > 0:
            self.log("stall", node, num=self.loop.vtime + amount)
            self.loop.vtime += amount

    async def handler(self, node):
        if self.pre:
            return      # the shutdown issued before the run: instantaneous, not part of the trace
        self.log("shut", node)
        sdur = self.g("sdur", node)
        try:
            if sdur < 0:
                await self.never()
            if sdur > 0:
                await asyncio.sleep(sdur)
        except asyncio.CancelledError:
            self.log("shut-cancel", node)
            scdur = self.cfg.get("scdur", [0] * self.n)[node - 1]
            if scdur > 0:
                deadline = self.loop.vtime + scdur
                while self.loop.vtime < deadline:
                    try:
                        await asyncio.sleep(deadline - self.loop.vtime)
                    except asyncio.CancelledError:
                        self.log("shut-recancel", node)
                self.log("shut-cancel-done", node)
            if self.h.get("sabsorb") and node % 2 == 1:
                # a handler may absorb its cancellation: it does a last clean-up and returns
                # normally; it still had to be cancelled
                return None
            raise
        self.log("shut-done", node)
        if self.h.get("sraise") and node % 2 == 0:
            # a handler may fail: the shutdown of the others goes on all the same, and a
            # handler that ended, however it ended, did not have to be cancelled
            raise VExc(node, ("shutdown of %d failed" % node,))

    def exc_tag(self, exc, node=0):
        """(kind, origin): origin = node whose body raised the object, or -s
        for a TimeoutError first seen coming out of scheduler s (identity)"""
        if isinstance(exc, (VExc, VBaseExc)):
            return "exc", exc.origin
        if isinstance(exc, TimeoutError):
            hit = self.excs.get(id(exc))
            if hit is None or hit[0] is not exc:
                hit = (exc, -node if node else -999)
                self.excs[id(exc)] = hit
            return "exc", hit[1]
        return "other", 0

    def diag(self, node):
        sched = self.obj[node]
        why = sched.why()
        cat = "fine" if why == "FINE" else \
            "timeout" if why.startswith("TIMED OUT") else \
            "critical" if "CRITICAL" in why else "other"
        tmo = self.g("tmo", node)
        exact = True
        if cat == "timeout":
            exact = why == "TIMED OUT after {}s".format(
                None if tmo < 0 else tmo)
        ftm = sched.failed_time_out()
        fcr = sched.failed_critical()
        # what a caller would test is the truth value
        self.log("diag", node, cat,
                 (1 if ftm else 0) + (2 if fcr else 0) + (4 if exact else 0))

    # -- predicates sample
    def code(self, node):
        job = self.obj[node]
        bits = (1 if job.is_idle() else 0) \
            + (2 if job.is_scheduled() else 0) \
            + (4 if job.is_running() else 0) \
            + (8 if job.is_done() else 0)
        exc = job.raised_exception()
        if exc is None:
            etag = 0
        elif isinstance(exc, BaseException):
            kind, etag = self.exc_tag(exc)
            if kind != "exc":
                etag = 9998
        else:
            etag = 9999         # False, or anything that is not an exception
        try:
            res = job.result()
            if res is self.ret[node]:
                rtag = "ret"
            elif res is True:
                rtag = "true"
            elif res is False:
                rtag = "false"
            elif res is None:
                rtag = "null"
            else:
                rtag = "other"
        except ValueError:
            rtag = "unset"
        except Exception:                               # pylint: disable=W0703
            rtag = "error"          # result() must answer, or raise ValueError("job not finished")
        # the badge list() / debrief() print for this job: life-cycle and outcome symbols
        short = job.repr_short()
        life = {"\u2613": 0, "\u21ba": 1, "\u2691": 2, "\u2690": 3, "x": 0, "o": 1, ".": 2, ">": 3}
        boom = {"\u2605": 0, "\u2609": 1, ":(": 0, ":)": 1}
        parts = short.split(" ")
        lcode = next((life[c] for c in short if c in life), 9)
        bcode = next((boom[c] for c in short if c in boom), 2)
        return [bits, rtag, etag, lcode * 3 + bcode]

    def snap(self):
        self.log("snap", 0,
                 snap=[self.code(i) for i in range(2, self.n + 1)])

    def tick(self, _old, new):
        self.peek()
        if self.snapping:
            self.snap()
        self.log("tick", 0, num=new)


def make_classes(ctx):
    """verification-side subclasses, bound to one context"""

    class Hashed:
        def __hash__(self):
            return self._vhash

        def __eq__(self, other):
            return self is other

    class VJob(Hashed, AbstractJob):
        def __init__(self, node, **kwds):
            self._vnode = node
            self._vhash = ctx.hk("hash", node, node)
            AbstractJob.__init__(self, **kwds)

        async def co_run(self):
            return await ctx.body(self._vnode)

        async def co_shutdown(self):
            return await ctx.handler(self._vnode)

    class CJob(Hashed, Job):
        def __init__(self, node, **kwds):
            self._vnode = node
            self._vhash = ctx.hk("hash", node, node)
            corun, coshut = ctx.body(node), ctx.handler(node)
            ctx.coros += [corun, coshut]
            if ctx.h.get("awtjobs"):
                corun, coshut = Awaitable(corun), Awaitable(coshut)
            Job.__init__(self, corun, coshutdown=coshut, **kwds)

    class SchedMixin:
        async def co_run(self):
            node = self._vnode
            ctx.log("run-begin", node)
            try:
                if node == 1 and ctx.early is not None:
                    inner, ctx.early = ctx.early, None
                else:
                    inner = self._vbase.co_run(self)
                val = await inner
            except asyncio.CancelledError:
                ctx.log("run-exc", node, "cancelled")
                raise
            except BaseException as exc:                # pylint: disable=W0703
                kind, origin = ctx.exc_tag(exc, node)
                ctx.log("run-exc", node, kind, origin)
                ctx.diag(node)
                raise
            ctx.log("run-end", node,
                    "true" if val is True else
                    "false" if val is False else "other")
            ctx.diag(node)
            return val

        async def co_shutdown(self):
            node = self._vnode
            ctx.log("sshut", node)
            try:
                val = await PureScheduler.co_shutdown(self)
            except asyncio.CancelledError:
                ctx.log("sshut-cancel", node)
                raise
            ctx.log("sshut-ret", node,
                    "true" if val is True else
                    "false" if val is False else
                    "null" if val is None else "other")
            return val

    class VSched(Hashed, SchedMixin, Scheduler):
        _vbase = Scheduler

        def __init__(self, node, *jobs, **kwds):
            self._vnode = node
            self._vhash = ctx.hk("hash", node, node)
            Scheduler.__init__(self, *jobs, **kwds)

    class VPure(SchedMixin, PureScheduler):
        _vbase = PureScheduler

        def __init__(self, node, *jobs, **kwds):
            self._vnode = node
            PureScheduler.__init__(self, *jobs, **kwds)

    return VJob, CJob, VSched, VPure


def build(ctx):
    """builds the tree of real objects for the scenario"""
    cfg = ctx.cfg
    VJob, CJob, VSched, VPure = make_classes(ctx)
    n = ctx.n
    kids = {i: [] for i in range(1, n + 1)}
    for i in range(2, n + 1):
        kids[ctx.g("parent", i)].append(i)

    deferred = []

    def label_of(node):
        # a label is optional
        return None if ctx.h.get("nolabel") and node % 3 == 0 else "n%d" % node

    # the documented defaults: a caller who wants them does not have to spell them
    DEFAULTS = dict(jobs_window=None, timeout=None, shutdown_timeout=1, watch=None, verbose=False,
                    critical=True, forever=False, label=None)

    def spelled(kwds):
        if not ctx.h.get("omitdefaults"):
            return kwds
        return {key: val for key, val in kwds.items()
                if not (key in DEFAULTS and (val is DEFAULTS[key] or
                                             (type(val) is type(DEFAULTS[key]) and val == DEFAULTS[key])))}

    def mk(node, owner=None):
        if ctx.g("kind", node) == "job":
            klass = CJob if ctx.hk("flavour", node, "abs") == "job" else VJob
            extra = {} if owner is None else {"scheduler": owner}
            if ctx.h.get("lateattr"):
                # flags are plain attributes too: built with the defaults, assigned afterwards
                ctx.obj[node] = klass(node, label=label_of(node), **extra)
                if node % 2:
                    ctx.obj[node].critical = ctx.g("crit", node)
                    ctx.obj[node].forever = ctx.g("forever", node)
                else:
                    # ... also once the job has joined its scheduler
                    deferred.append(node)
            else:
                ctx.obj[node] = klass(node, **spelled(dict(critical=ctx.g("crit", node),
                                                           forever=ctx.g("forever", node),
                                                           label=label_of(node))), **extra)
            return ctx.obj[node]
        style = ctx.h.get("addstyle", "ctor")
        members = [] if style == "topdown" else [mk(k) for k in kids[node]]
        win = ctx.g("win", node)
        tmo = ctx.g("tmo", node)
        stmo = ctx.g("stmo", node)
        watch = None
        if ctx.h.get("watch"):
            from asynciojobs import Watch
            watch = Watch(show_elapsed=False)
        # "None or 0 means no limit"
        nolimit = 0 if ctx.h.get("zerowin") else None
        if win and ctx.h.get("enumwin"):
            # an integer is an integer, also when it is a member of an IntEnum
            import enum
            win = enum.IntEnum("Parallelism", {"W%d" % win: win})["W%d" % win]
        kwds = dict(watch=watch, jobs_window=nolimit if win == 0 else win,
                    timeout=None if tmo < 0 else tmo,
                    shutdown_timeout=None if stmo < 0 else stmo,
                    verbose=bool(ctx.h.get("verbose", False)))
        if ctx.h.get("verbose") == "mixed":
            # verbosity is a setting of each scheduler
            kwds["verbose"] = ctx.hk("hash", node, node) % 2 == 0
        late = {}
        if ctx.h.get("lateattr"):
            # the settings are plain attributes: they may be assigned after construction
            late = {key: kwds[key] for key in ("jobs_window", "timeout", "shutdown_timeout")}
            kwds.update(jobs_window=1, timeout=7, shutdown_timeout=5)
        # the members may be given to the constructor, or added afterwards, one by one or in bulk,
        # or the tree may be built from the top: a scheduler joins its parent while still empty
        first = members if style == "ctor" else []
        if node == 1 and cfg["pure"]:
            ctx.obj[node] = VPure(node, *first, **spelled(kwds))
        else:
            ctx.obj[node] = VSched(node, *first,
                                   **spelled(dict(critical=ctx.g("crit", node),
                                                  forever=ctx.g("forever", node),
                                                  label=label_of(node), **kwds)))
        if style == "topdown":
            if node != 1:
                ctx.obj[ctx.g("parent", node)].add(ctx.obj[node])
            for k in kids[node]:
                if ctx.g("kind", k) == "job" and k % 2:
                    mk(k, ctx.obj[node])                # joins through scheduler=
                else:
                    child = mk(k)
                    if ctx.g("kind", k) == "job":
                        ctx.obj[node].add(child)
        if node == 1 and style != "ctor" and ctx.h.get("earlycoro") and ctx.cfg.get("ucancel", -1) < 0:
            # co_run() is a coroutine function: calling it does nothing until the result is
            # awaited; the scheduler may still be filled in between
            ctx.early = ctx.obj[node]._vbase.co_run(ctx.obj[node])
            ctx.coros.append(ctx.early)
        if style == "add":
            for member in members:
                ctx.obj[node].add(member)
        elif style == "update":
            ctx.obj[node].update(iter(members) if node % 2 else list(members))
        for key, val in late.items():
            setattr(ctx.obj[node], key, val)
        if late and not (node == 1 and cfg["pure"]):
            ctx.obj[node].critical = not ctx.g("crit", node)
            ctx.obj[node].critical = ctx.g("crit", node)
            ctx.obj[node].forever = ctx.g("forever", node)
        return ctx.obj[node]

    top = mk(1)
    for node in deferred:
        ctx.obj[node].critical = ctx.g("crit", node)
        ctx.obj[node].forever = ctx.g("forever", node)
    if ctx.h.get("earlycoro") and ctx.cfg.get("ucancel", -1) < 0 and ctx.early is None:
        # co_run() is a coroutine function: calling it does nothing until the result is
        # awaited; the graph may still be edited in between
        # (the library's own coroutine function: the wrapper of SchedMixin awaits this object)
        ctx.early = top._vbase.co_run(top)
        ctx.coros.append(ctx.early)
    edges = [(i, r) for i in range(2, n + 1) for r in ctx.g("req", i)]
    prep = ctx.h.get("prep", 0)
    seq_edges = []
    if prep == 6:
        # the first requirement of each job is declared through a Sequence only (below)
        seq_edges = [(i, ctx.g("req", i)[0]) for i in range(2, n + 1) if ctx.g("req", i)]
        edges = [e for e in edges if e not in seq_edges]
    half = len(edges) // 2 if prep == 1 else len(edges)
    for i, r in edges[:half]:
        ctx.obj[i].requires(ctx.obj[r])
    if prep in (1, 2, 3):
        # a user may inspect the scheduler while building it: the query API
        # must not leave anything behind that a later run depends on
        for s in range(1, n + 1):
            sched = ctx.obj[s]
            if not isinstance(sched, PureScheduler):
                continue
            list(sched.entry_jobs())
            list(sched.exit_jobs())
            sched.check_cycles()
            for job in list(sched.jobs)[:2]:
                sched.successors_downstream(job)
                sched.predecessors_upstream(job)
            list(sched.iterate_jobs())
            if prep == 2:
                sched.sanitize()
    for i, r in edges[half:]:
        ctx.obj[i].requires(ctx.obj[r])
    if prep == 3:
        # the scenario's graph is reached through an edit history: an extra job is
        # spliced into one requirement edge of each scheduler, the query API is used,
        # and the extra job is bypassed and removed again.  It must never run.
        class Alien(AbstractJob):
            async def co_run(self):
                ctx.log("alien", 0, "run")

            async def co_shutdown(self):
                ctx.log("alien", 0, "shutdown")
        for s in range(1, n + 1):
            sched = ctx.obj[s]
            if not isinstance(sched, PureScheduler):
                continue
            mine = [(i, r) for (i, r) in edges if ctx.g("parent", i) == s]
            if not mine:
                continue
            i, r = mine[(ctx.hk("hash", s, s)) % len(mine)]
            mid = Alien(critical=False, label="alien")
            mid.requires(ctx.obj[r])
            ctx.obj[i].requires(ctx.obj[r], remove=True)
            ctx.obj[i].requires(mid)
            sched.add(mid)
            list(sched.exit_jobs())
            sched.successors_downstream(ctx.obj[r])
            sched.check_cycles()
            sched.bypass_and_remove(mid)
    if prep == 5:
        # keep_only() with everything the tree holds: "any job not belonging in self is ignored",
        # so nothing changes anywhere
        everything = [x for x in top.iterate_jobs(scan_schedulers=True) if x is not top]
        top.keep_only(everything)
    if prep == 6:
        # one requirement of each job is declared again through a Sequence with an empty
        # sequence in the middle: Sequence(r, Sequence(), j) says no more than "j requires r"
        from asynciojobs import Sequence
        for i, r in seq_edges:
            Sequence(ctx.obj[r], Sequence(), ctx.obj[i])
    if prep == 4:
        # a requirement is swapped for another one and swapped back, with queries in
        # between: the numbers of jobs and of requirements never change
        for s in range(1, n + 1):
            sched = ctx.obj[s]
            if not isinstance(sched, PureScheduler):
                continue
            kids = [i for i in range(2, n + 1) if ctx.g("parent", i) == s]
            mine = [(i, r) for (i, r) in edges if ctx.g("parent", i) == s]
            if not mine:
                continue
            c, a = mine[(ctx.hk("hash", s, s)) % len(mine)]
            down = {c}
            grew = True
            while grew:
                grew = False
                for (i, r) in mine:
                    if r in down and i not in down:
                        down.add(i)
                        grew = True
            others = [b for b in kids if b not in down and b not in ctx.g("req", c)]
            if not others:
                continue
            b = others[ctx.hk("hash", c, c) % len(others)]
            ctx.obj[c].requires(ctx.obj[a], remove=True)
            ctx.obj[c].requires(ctx.obj[b])
            list(sched.exit_jobs())
            sched.successors_downstream(ctx.obj[b])
            sched.check_cycles()
            ctx.obj[c].requires(ctx.obj[b], remove=True)
            ctx.obj[c].requires(ctx.obj[a])
    return top


async def cancelled_by_caller(ctx, top, when):
    """the caller runs co_run() in a task of its own and cancels it at instant `when`
    (what asyncio.wait_for or a surrounding TaskGroup would do)"""
    loop = ctx.loop
    task = asyncio.ensure_future(top.co_run())

    def fire():
        if not task.done():
            ctx.log("ucancel", 1)
            task.cancel()
    handle = loop.call_at(when, fire)
    try:
        return await task
    except asyncio.CancelledError:
        return "cancelled"
    finally:
        handle.cancel()


def horizon_of(cfg):
    tot = 10
    for key in ("dur", "sdur", "cdur", "scdur", "tmo", "stmo"):
        tot += sum(x for x in cfg.get(key, []) if x > 0)
    return tot


class PreShutFailed(Exception):
    """the shutdown() issued before the run went wrong: the scenario stops there"""


class WallClock(BaseException):
    """the scenario is taking real time: the library left the virtual loop, or spins"""


def _alarm(_signum, _frame):
    raise WallClock()


def run_scenario(sc):
    """returns the trace (dict) of one scenario"""
    signal.signal(signal.SIGALRM, _alarm)
    signal.setitimer(signal.ITIMER_REAL, 20)
    try:
        return _run_scenario(sc)
    finally:
        signal.setitimer(signal.ITIMER_REAL, 0)


def _run_scenario(sc):
    ctx = Ctx(sc)
    loop = VirtualLoop()
    ctx.loop = loop
    CLOCK.loop = loop
    asyncio.set_event_loop(loop)
    sink = io.StringIO()
    hor = horizon_of(ctx.cfg)
    loop.horizon = hor
    try:
        with contextlib.redirect_stdout(sink):
            try:
                top = build(ctx)
            except PreShutFailed:
                raise
            except BaseException as exc:                # pylint: disable=W0703
                # the tree could not even be put together with the calls the documentation offers
                ctx.log("build-exc", 1, type(exc).__name__)
                raise PreShutFailed()
            if ctx.cfg.get("preshut"):
                # shutdown() before the run: every job hears of it now, and never again
                ctx.pre = True
                failed = None
                try:
                    top.shutdown()
                except (Deadlock, Livelock):
                    failed = "hang"
                except BaseException as exc:            # pylint: disable=W0703
                    failed = type(exc).__name__
                finally:
                    ctx.pre = False
                if failed or loop.vtime != 0:
                    # an instantaneous shutdown of an idle tree neither raises, hangs nor takes time
                    ctx.log("late-exc", 1, failed or "took-time")
                    raise PreShutFailed()
            loop.on_tick = ctx.tick
            ucancel = ctx.cfg.get("ucancel", -1)
            try:
                if ucancel >= 0:
                    val = loop.run_until_complete(cancelled_by_caller(ctx, top, ucancel))
                else:
                    val = top.run()
                topv, topi = ("true" if val is True else
                              "false" if val is False else
                              "cancelled" if val == "cancelled" else "other"), 0
            except Deadlock:
                topv, topi = "deadlock", 0
            except (Livelock, WallClock):
                topv, topi = "livelock", 0
            except BaseException as exc:                # pylint: disable=W0703
                topv, topi = ctx.exc_tag(exc)
            loop.on_tick = None
            if ctx.snapping:
                ctx.snap()
            if topv not in ("deadlock", "livelock"):
                # what result() / raised_exception() answer for every node once the run is over
                ctx.log("res", 0, snap=[ctx.code(i)[1:3] for i in range(2, ctx.n + 1)])
            ctx.log("top", 1, topv, topi)
            hung = False
            if topv not in ("deadlock", "livelock"):
                if topv != "cancelled" or ctx.cfg.get("xshut"):
                    # a later explicit shutdown must send nothing - unless the caller had
                    # cancelled the run, which then ended without any shutdown phase (xshut)
                    if ctx.cfg.get("xshut"):
                        loop.on_tick = ctx.tick     # time may pass while the handlers run
                    try:
                        top.shutdown()
                    except (Deadlock, Livelock):
                        ctx.log("late-hang", 1)
                        hung = True
                    except BaseException as exc:        # pylint: disable=W0703
                        # the explicit shutdown() is not supposed to raise anything
                        ctx.log("late-exc", 1, type(exc).__name__)
                        hung = True
                    loop.on_tick = None
                if not hung:
                    # let the loop run on: nothing may happen any more
                    ctx.log("leftover", 1, num=len(loop.unfinished()))
                    loop.horizon = loop.vtime + hor + 1
                    try:
                        loop.run_until_complete(asyncio.sleep(hor))
                    except (Deadlock, Livelock):
                        pass
    except PreShutFailed:
        pass
    finally:
        ctx.closed = True
        CLOCK.loop = None
        loop.drain()
        asyncio.set_event_loop(None)
        loop.close()
        for coro in ctx.coros:
            try:
                coro.close()
            except BaseException:                       # pylint: disable=W0703
                pass        # a suspended run that does things in a `finally:` when it is closed
    return {"sid": sc.get("sid", 0), "cfg": ctx.cfg,
            "harness": ctx.h, "ev": ctx.ev,
            "nbody": [ctx.nbody[i] for i in range(1, ctx.n + 1)]}


def main(argv):
    with open(argv[1]) as inp:
        scs = json.load(inp)
    out = []
    for sc in scs:
        out.append(run_scenario(sc))
    with open(argv[2], "w") as outp:
        json.dump(out, outp, separators=(",", ":"))


if __name__ == "__main__":
    main(sys.argv)
