"""
Checks of the structural properties C15..C20: design theorems of Graph.tla
checked by TLC over all graphs of a bound, and histories of API calls recorded
from the real classes validated by TLC against Graph.tla / Build.tla / Dot.tla.
"""

import concurrent.futures
import json
import os
import re
import subprocess
import sys
import time

HERE = os.path.dirname(os.path.abspath(__file__))
ROOT = os.path.dirname(HERE)
sys.path.insert(0, HERE)

import tlc                                              # noqa: E402

PY = "/venv/bin/python"
REPO = os.environ.get("VERIF_REPO", "/repo")
NSHARDS = 16

ACC = re.compile(r'^<<"ACC", (\d+)>>')
AT = re.compile(r'^"AT\|(\d+)\|(\d+)\|([^|"]*)\|([^|"]*)"$')

# (op regex, clause regex) -> properties
GRAPH_ATTR = [
    (r".*", r"^(check-cycles|check-cycles-raises|topological-order|topological-order-no-raise|topological-order-interleaved|len)$", ["C15"]),
    (r".*", r"^(entry-jobs|exit-jobs|exit-jobs-forever|predecessors|successors|upstream|downstream|iterate-jobs|iterate-jobs-schedulers|iterate-jobs-interleaved)$", ["C17"]),
    (r"^sanitize$", r".*", ["C16"]),
    (r"^(bypass|keep_only|keep_between)$", r".*", ["C18"]),
    # what the queries are specified against is what the user declared: an edit call that
    # records something else breaks them too
    (r"^(requires|add|update|remove)$", r".*", ["C19", "C17", "C15"]),
    (r"^(display|scan)$", r".*", ["C15", "C17", "C20"]),
    (r"^list$", r"^list-", ["C15", "C20"]),
]


def attribute(table, op, clause):
    for oprex, clrex, props in table:
        if re.match(oprex, op) and re.match(clrex, clause):
            return props
    return None


def run_driver(script, items, workdir, tag):
    inf = os.path.join(workdir, "in-%s.json" % tag)
    outf = os.path.join(workdir, "out-%s.json" % tag)
    with open(inf, "w") as out:
        json.dump(items, out)
    env = dict(os.environ, VERIF_REPO=REPO, PYTHONHASHSEED="0", ASYNCIOJOBS_VERIF="1")
    proc = subprocess.run([PY, os.path.join(HERE, script), inf, outf], env=env,
                          stdout=subprocess.PIPE, stderr=subprocess.PIPE, text=True)
    if proc.returncode != 0:
        raise tlc.TlcFailure("%s failed: %s" % (script, proc.stderr[-3000:]))
    os.remove(inf)
    return outf


def validate(module, cfg, tracef, workdir):
    rc, out = tlc.run(module, cfg, env={"TRACE_FILE": tracef}, workers=1, scratch=workdir, heap="3g")
    if "Model checking completed" not in out:
        raise tlc.TlcFailure("%s did not complete:\n%s" % (module, out[-3000:]))
    acc, front = set(), {}
    for line in out.splitlines():
        m = ACC.match(line)
        if m:
            acc.add(int(m.group(1)))
            continue
        m = AT.match(line)
        if m:
            front[int(m.group(1))] = (int(m.group(2)), m.group(3), m.group(4))
    gen, dist = tlc.stats(out)
    return acc, front, gen, dist


def shard(args):
    idx, items, workdir, script, module, cfg = args
    outf = run_driver(script, items, workdir, "s%d" % idx)
    with open(outf) as inp:
        recs = json.load(inp)
    acc, front, gen, dist = validate(module, cfg, outf, workdir)
    os.remove(outf)
    rejected = []
    for i, rec in enumerate(recs):
        if (i + 1) in acc:
            continue
        at = front.get(i + 1, (0, "?", "no-frontier"))
        rejected.append({"input": items[i], "recorded": rec, "at": at[0], "op": at[1], "clause": at[2]})
    return recs, rejected, gen, dist


def validate_all(items, workdir, script, module, cfg):
    shards = [items[i::NSHARDS] for i in range(NSHARDS)]
    shards = [s for s in shards if s]
    recs, rejected, gen, dist = [], [], 0, 0
    with concurrent.futures.ThreadPoolExecutor(max_workers=NSHARDS) as pool:
        for r, rej, g, d in pool.map(shard, [(i, s, workdir, script, module, cfg)
                                             for i, s in enumerate(shards)]):
            recs += r
            rejected += rej
            gen += g
            dist += d
    return recs, rejected, gen, dist


def theorems(module, cfgs, workdir, consts=None):
    """runs design-level theorem configurations; -> (states, transitions, list)"""
    states = trans = 0
    done = []
    for cfg in cfgs:
        start = time.time()
        cfgpath = cfg
        if consts:
            with open(os.path.join(tlc.SPEC_DIR, cfg)) as inp:
                text = inp.read()
            for key, val in consts.items():
                text = re.sub(r"CONSTANT %s = \d+" % key, "CONSTANT %s = %d" % (key, val), text)
            cfgpath = os.path.join(workdir, "gen-" + cfg)
            with open(cfgpath, "w") as out:
                out.write(text)
        rc, out = tlc.run(module, cfgpath, workers=16, scratch=workdir)
        bad = tlc.violated(out)
        if bad:
            raise tlc.TlcFailure("design theorem %s of %s fails:\n%s" % (bad, module, out[-3000:]))
        if "Model checking completed" not in out:
            raise tlc.TlcFailure("TLC failed on %s %s:\n%s" % (module, cfg, out[-3000:]))
        gen, dist = tlc.stats(out)
        states += dist
        trans += gen
        done.append({"config": cfg, "constants": consts, "distinct_states": dist,
                     "wall_s": round(time.time() - start, 1)})
    return states, trans, done


GRAPH_THEOREMS = {"C15": ["MC_Graph_topo.cfg"], "C16": ["MC_Graph_nested.cfg"],
                  "C17": ["MC_Graph_dags.cfg"], "C18": ["MC_Graph_dags.cfg"]}


def finish(prop, tier, seed, started, items_count, recs, rejected, attr_table, coverage_extra,
           nontriv, samples, known=None):
    """common tail: attribution, evidence, verdict lines"""
    from importlib import import_module
    chk = sys.modules["__main__"]
    mine, foreign, unknown = [], [], []
    for rej in rejected:
        props = attribute(attr_table, rej["op"], rej["clause"])
        rej["attributed"] = props
        if props is None:
            unknown.append(rej)
        elif prop in props:
            mine.append(rej)
        else:
            foreign.append(rej)
    lines = []
    known_hits = []
    real = []
    for rej in mine:
        hit = None
        for entry in (known or []):
            if entry["match"](rej):
                hit = entry
                break
        if hit:
            known_hits.append((hit, rej))
        else:
            real.append(rej)
    for i, rej in enumerate(real[:20]):
        path = chk.save_replay(prop, i + 1, {"property": prop, "kind": "history", "input": rej["input"],
                                             "recorded": rej["recorded"], "failing_step": rej["at"],
                                             "op": rej["op"], "failing_clause": rej["clause"]})
        lines.append("VIOLATION property=%s replay=%s" % (prop, path))
    coverage = dict(coverage_extra)
    coverage.update({
        "traces_validated_against_impl": len(recs),
        "evaluations": items_count, "distinct_nontrivial": nontriv,
        "samples": samples,
        "validation": {"accepted": len(recs) - len(rejected), "rejected": len(rejected),
                       "attributed_here": len(mine), "known_findings_hit": len(known_hits),
                       "foreign_count": len(foreign),
                       "foreign_rejections": [{"op": r["op"], "clause": r["clause"],
                                               "attributed": r["attributed"]} for r in foreign[:30]]},
    })
    ev = {"property_id": prop, "tier": tier, "seed": seed, "level": "model_checking",
          "coverage": coverage,
          "assumptions": ["TLC and the TLA+ community modules",
                          "the projection of the real objects onto the abstract state (harness drivers)"],
          "wall_s": round(time.time() - started, 1), "violations": len(real)}
    chk.write_evidence(prop, ev)
    seen_known = set()
    for hit, rej in known_hits:
        if hit["id"] not in seen_known:
            seen_known.add(hit["id"])
            print("KNOWN-FINDING: property=%s %s" % (prop, hit["text"]))
    for line in lines:
        print(line)
    if unknown:
        for rej in unknown[:5]:
            path = chk.save_replay(prop, 900, {"property": prop, "kind": "unattributed", "input": rej["input"],
                                               "recorded": rej["recorded"], "op": rej["op"],
                                               "failing_clause": rej["clause"]})
            print("MACHINERY: unattributed rejection op=%s clause=%s replay=%s" % (rej["op"], rej["clause"], path))
        return 2
    if foreign:
        print("note: %d history(ies) rejected for reasons attributed to other properties: %s"
              % (len(foreign), sorted({p for r in foreign for p in r["attributed"]})))
    print("%s %s: %d histories validated against the specification, %d rejected (%d attributed to %s, "
          "%d known), %.0fs" % (prop, tier, len(recs), len(rejected), len(mine), prop, len(known_hits),
                                time.time() - started))
    return 1 if real else 0


HIST = re.compile(r'^"HIST\|(.*)"$')
WALK_KINDS = ["sched", "job", "job", "job", "sched", "job", "job", "job", "sched", "pure"]
WALK_FOREVER = [i in (4, 7) for i in range(1, 11)]


def graph_walks(walks, seed, workdir):
    """spec -> code: edit histories generated by TLC (-simulate on MC_GraphWalk), with the design
    properties of the edits checked on every transition of every walk"""
    rc, out = tlc.run("MC_GraphWalk.tla", "MC_GraphWalk.cfg", workers=1, scratch=workdir, timeout=1800,
                      extra=["-simulate", "num=%d" % walks, "-depth", "10", "-seed", str(seed + 11)])
    bad = tlc.violated(out)
    if bad:
        raise tlc.TlcFailure("Graph.tla violates its own design property %s on a walk:\n%s" % (bad, out[-3000:]))
    if "Finished in" not in out or "Error:" in out:
        raise tlc.TlcFailure("MC_GraphWalk did not complete:\n" + out[-3000:])
    hists, perprefix, seen = [], {}, set()
    for line in out.splitlines():
        m = HIST.match(line)
        if not m or m.group(1) in seen:
            continue
        seen.add(m.group(1))
        body = json.loads(m.group(1).replace('\\"', '"'))
        # TLC prints every successor of the last state of a walk: keep a dozen per walk
        key = json.dumps(body["steps"][:-1], sort_keys=True)
        perprefix[key] = perprefix.get(key, 0) + 1
        if perprefix[key] > 12:
            continue
        hists.append({"U": {"n": len(WALK_KINDS), "kind": WALK_KINDS, "forever": WALK_FOREVER},
                      "init": body["init"], "steps": body["steps"], "walk": True})
    gen, _ = tlc.stats(out)
    m = re.search(r"(\d+) states checked", out)
    return hists, int(m.group(1)) if m else gen


def graph(prop, tier, seed, workdir):
    import graphfam
    started = time.time()
    consts = {"K": 4 if tier == "quick" else 5}
    cfgs = GRAPH_THEOREMS[prop]
    states, trans, thms = 0, 0, []
    for cfg in cfgs:
        k = None if cfg.endswith("nested.cfg") else consts
        if cfg.endswith("topo.cfg") and tier == "thorough":
            k = {"K": 4}        # all 65536 digraphs with self-loops; 5 nodes = 2^25 is out of reach
        s, t, d = theorems("MC_Graph.tla", [cfg], workdir, k)
        states += s
        trans += t
        thms += d
    hists, desc = graphfam.histories(prop, tier, seed)
    walks, wstates = graph_walks(120 if tier == "quick" else 1500, seed, workdir)
    hists += walks
    for i, h in enumerate(hists):
        h["hid"] = i + 1
    trans += wstates
    recs, rejected, gen, dist = validate_all(hists, workdir, "graphdrv.py", "GraphTrace.tla", "GraphTrace.cfg")
    opkey = {"C15": None, "C16": "sanitize", "C17": None, "C18": ("bypass", "keep_only", "keep_between")}[prop]
    seen = set()
    nontriv = 0
    for rec in recs:
        key = json.dumps([rec["U"], rec["init"], [[s["op"], s["s"], s["x"], s["A"], s["B"], s["f1"], s["f2"], s["qs"], s["qA"]]
                                                  for s in rec["steps"]]], sort_keys=True)
        if key in seen:
            continue
        seen.add(key)
        if opkey is None:
            ok = any(s["qs"] for s in rec["steps"])
        else:
            ok = any(s["op"] == opkey or s["op"] in opkey for s in rec["steps"])
        nontriv += 1 if ok else 0
    samples = [{"U": r["U"], "init": r["init"],
                "steps": [{k: v for k, v in s.items() if k != "post"} for s in r["steps"][:3]]}
               for r in (recs[:1] + recs[-1:])]
    listing = None
    if prop == "C15":
        # "list() numbers jobs accordingly": the listing of rendered trees (Dot.tla), including
        # trees listed once, edited, and listed again
        import dotcheck
        lrecs, lrej = dotcheck.list_rejections(tier, seed, workdir, 400 if tier == "quick" else 6000)
        for r in lrej:
            r["recorded"] = {"U": None, "init": None, "steps": [], "tree": r["recorded"]["tree"]}
        rejected = rejected + lrej
        listing = {"trees_listed": len(lrecs), "rejected": len(lrej)}
    cov = {"states": states + dist, "transitions": trans + gen, "listing": listing,
           "rule": "histories of graph API calls (%s) executed on the real classes, every step and query "
                   "validated by TLC against Graph.tla; distinct = distinct (universe, initial graph, call "
                   "sequence); non-trivial = contains a call / query this property is about" % desc,
           "design_theorems": thms, "exhaustive": False,
           "histories_generated_by_tlc": {"histories": len(walks), "states_checked_on_walks": wstates,
                                          "properties_checked_on_every_transition":
                                          ["Inv_Tree", "Inv_Scan", "P_Sanitize", "P_Bypass", "P_Keep", "P_Readonly"]}}
    return finish(prop, tier, seed, started, len(hists), recs, rejected, GRAPH_ATTR, cov, nontriv, samples)


def run(prop, tier, seed, workdir):
    if prop in ("C15", "C16", "C17", "C18"):
        return graph(prop, tier, seed, workdir)
    if prop == "C19":
        import buildcheck
        return buildcheck.run(tier, seed, workdir)
    if prop == "C20":
        import dotcheck
        return dotcheck.run(tier, seed, workdir)
    return 2


def replay(payload, path, workdir):
    prop = payload["property"]
    if prop in ("C15", "C16", "C17", "C18") or payload.get("driver") == "graph":
        recs, rejected, _, _ = validate_all([payload["input"]], workdir, "graphdrv.py",
                                            "GraphTrace.tla", "GraphTrace.cfg")
    elif prop == "C19":
        recs, rejected, _, _ = validate_all([payload["input"]], workdir, "builddrv.py",
                                            "BuildTrace.tla", "BuildTrace.cfg")
    else:
        import dotcheck
        return dotcheck.replay(payload, path, workdir)
    if not rejected:
        print("replay: this history is now accepted")
        return 0
    rej = rejected[0]
    print("replay: rejected at step %d (%s): %s" % (rej["at"], rej["op"], rej["clause"]))
    print("VIOLATION property=%s replay=%s" % (prop, path))
    return 1
