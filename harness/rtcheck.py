"""
Checks of the runtime properties C01..C14:

  A. TLC explores Orchestra exhaustively on model families (every listed
     property is an invariant / action property of the specification);
  B. thousands of scenarios are run against the real package under the
     virtual-time loop, and TLC decides whether each recorded trace is a
     behaviour of the specification (OrchestraTrace); rejected traces are
     diagnosed (frontier states + failing clause) and attributed to properties;
  C. metamorphic pairs for C06 (flip of a non-critical outcome) and C10
     (nested vs flattened), decided by OrchestraTwin on the recorded traces.
"""

import concurrent.futures
import hashlib
import json
import os
import re
import shutil
import subprocess
import sys
import tempfile
import threading
import time

HERE = os.path.dirname(os.path.abspath(__file__))
ROOT = os.path.dirname(HERE)
sys.path.insert(0, HERE)

import tlc                                              # noqa: E402
import families                                         # noqa: E402
import tvfam                                            # noqa: E402
import scenario                                         # noqa: E402

PY = "/venv/bin/python"
REPO = os.environ.get("VERIF_REPO", "/repo")
NSHARDS = 16

MC_FAMILIES = {
    "C01": ["flat", "nested"], "C02": ["flat"], "C03": ["flat", "never"],
    "C04": ["nested", "never"], "C05": ["nested"], "C06": ["flat"],
    "C07": ["flat", "nested"], "C08": ["never", "nested"], "C09": ["flat", "never"],
    "C10": ["nested"], "C11": ["nested", "shutdown"], "C12": ["flat"],
    "C13": ["shutdown", "nested"], "C14": ["flat", "nested"],
}

TV_COUNT = {"quick": 3200, "thorough": 64000}

# ---------------------------------------------------------------- attribution
# (regex on the failing-clause code, properties); first match wins.
# `{cause}` codes are expanded by CAUSE below.
CAUSE = {"critical": ["C05"], "timeout": ["C08"], "success": ["C09", "C02"],
         "cancelled": ["C11"], "not-main": ["C01"]}
ATTR = [
    (r"^req-unfinished$", ["C01"]),
    # a forever job releases the jobs that require it only by ending
    (r"^req-unfinished-forever$", ["C01", "C09"]),
    (r"^parent-not-started$", ["C01", "C10"]),
    (r"^start-not-scheduled$", ["C01", "C12"]),
    (r"^second-start$", ["C02"]),
    (r"^window-full$", ["C07"]),
    # a nested scheduler is one job of its parent, and takes one slot of its window
    (r"^window-full-nested$", ["C07", "C10"]),
    (r"^start-parent-aborted-(\w+)$", "cause"),
    (r"^start-parent-not-main$", ["C01"]),
    (r"^start-after-cancel$", ["C05", "C08", "C09"]),
    (r"^late-\w+(-\w+)?-parent-aborted-(\w+)$", "cause2"),
    (r"^late-", ["C12", "C05", "C08", "C09"]),
    (r"^end-after-cancel-parent-aborted-(\w+)$", "cause"),
    (r"^end-after-cancel", ["C05", "C08", "C09"]),
    (r"^end-not-running$", ["C02", "C14"]),
    (r"^outcome-mismatch$", ["C06"]),
    (r"^spurious-cancel-parent-aborted-(\w+)$", "cause"),
    (r"^spurious-cancel-parent-not-main$", ["C06", "C02"]),
    (r"^spurious-cancel", ["C06"]),
    (r"^cancel-", ["C05", "C08", "C09"]),
    (r"^tick-over-eligible-job$", ["C12", "C03"]),
    (r"^tick-over-eligible-job-window$", ["C12", "C07", "C03"]),
    # the window of a nested scheduler is about its own jobs only
    (r"^tick-over-eligible-job-nested-window$", ["C12", "C07", "C10", "C03"]),
    (r"^tick-over-unprocessed$", ["C12", "C09", "C05"]),
    (r"^tick-over-deadline$", ["C08"]),
    (r"^tick-over-shutdown-deadline$", ["C13"]),
    (r"^tick-over-ending-run-(\w+)$", "cause"),
    (r"^tick-over-ending-run", ["C05", "C08", "C09", "C13"]),
    (r"^tick-over-job-alarm$", ["C05", "C08", "C09", "C11"]),
    (r"^tick-over-instant$", ["C11", "C13"]),
    (r"^tick-target-ctx-(\w+)$", "cause"),
    (r"^tick-(target|no-alarm|after-end)", ["C08", "C12", "C13"]),
    (r"^time-mismatch-(start|run-begin)$", ["C12"]),
    (r"^time-mismatch-", ["C11"]),
    # (the cancelled nested run then ends as if it had finished: it is reported done, C14)
    (r"^shutdown-swallows-cancel-parent-aborted-critical$", ["C13", "C11", "C05", "C14"]),
    (r"^shutdown-swallows-cancel-parent-aborted-timeout$", ["C13", "C11", "C08", "C14"]),
    (r"^shutdown-swallows-cancel-parent-aborted-success$", ["C13", "C11", "C09", "C14"]),
    (r"^shutdown-swallows-cancel", ["C13", "C11", "C14"]),
    (r"^shutdown-repeated$", ["C13"]),
    (r"^shutdown-while-live$", ["C13", "C11"]),
    (r"^shutdown-in-main$", ["C13", "C02", "C09"]),
    (r"^shutdown-", ["C13"]),
    (r"^sshut", ["C13"]),
    (r"^shut-while-sibling-live$", ["C13", "C11"]),
    (r"^shut-", ["C13"]),
    (r"^verdict-cancelled-without-cancellation$", ["C04", "C10", "C11"]),
    (r"^verdict-.*-claims-success-spec-timeout", ["C04", "C10", "C08", "C02"]),
    (r"^verdict-.*-claims-success-spec-critical", ["C04", "C10", "C05", "C02"]),
    (r"^verdict-.*-claims-success-spec-", ["C04", "C10", "C02"]),
    (r"^verdict-.*(-claims-timeout-spec-|-spec-timeout$)", ["C04", "C10", "C08"]),
    (r"^verdict-", ["C04", "C10"]),
    (r"^diagnosis-.*timeout", ["C04", "C08"]),
    (r"^diagnosis", ["C04"]),
    (r"^run-end-early$", ["C02", "C04", "C09"]),
    (r"^run-end-early-eligible-waiting$", ["C02", "C04", "C09", "C12"]),
    (r"^run-(end|exc)-", ["C04", "C10"]),
    # (the nested scheduler is over for its parent before its own run is: C10)
    (r"^cancelled-run-ends-early-parent-aborted-critical$", ["C11", "C10", "C05"]),
    (r"^cancelled-run-ends-early-parent-aborted-timeout$", ["C11", "C10", "C08"]),
    (r"^cancelled-run-ends-early-parent-aborted-success$", ["C11", "C10", "C09"]),
    (r"^cancelled-run-ends-early", ["C11", "C10"]),
    (r"^predicates$", ["C14"]),
    (r"^results-nested-scheduler-parent-aborted-(\w+)$", "cause+", ["C14", "C10"]),
    (r"^results-job-parent-aborted-(\w+)$", "cause+", ["C14"]),
    (r"^results-nested-scheduler$", ["C14", "C10"]),
    (r"^results-exception$", ["C14", "C06"]),
    (r"^results-", ["C14"]),
    (r"^no-progress-explicit-shutdown$", ["C13", "C03"]),
    (r"^no-progress-", ["C03"]),
    (r"^top-early$", ["C03", "C11"]),
    (r"^top-other$", ["C04"]),
    (r"^leftover-tasks$", ["C11"]),
    (r"^after-top-", ["C11", "C13"]),
    (r"^bad-root-begin$", ["C02"]),
    (r"^build-raises$", ["C19", "C18", "C16", "C15"]),
    (r"^user-cancel-other$", ["C11"]),
    (r"^alien-job-run$", ["C02", "C01", "C17"]),
    (r"^alien-job-shutdown$", ["C13", "C17"]),
]


def attribute(code):
    """-> list of property ids, or None when the code is unknown"""
    extra = []
    if code.endswith("-under-forever"):
        # the refused event belongs to a forever job, or to a job inside a forever nested scheduler
        code = code[:-len("-under-forever")]
        extra = ["C09"]
    if code.endswith("-in-window"):
        # the nested scheduler gives its slot of the parent's window back while its jobs still run
        code = code[:-len("-in-window")]
        extra = extra + ["C07"]
    if code.endswith("-leaving-forever-jobs"):
        code = code[:-len("-leaving-forever-jobs")]
        extra = extra + ["C09"]
    if code.endswith("-by-nested"):
        # the parent was (or should have been) aborted by the failure of a critical nested scheduler
        code = code[:-len("-by-nested")]
        extra = extra + ["C10"]
    for entry in ATTR:
        rex, props = entry[0], entry[1]
        m = re.match(rex, code)
        if not m:
            continue
        if props == "cause+":
            return entry[2] + CAUSE.get(m.group(1), ["C05", "C08", "C09"]) + extra
        if props == "cause":
            return CAUSE.get(m.group(1), ["C05", "C08", "C09"]) + extra
        if props == "cause2":
            return CAUSE.get(m.group(2), ["C05", "C08", "C09"]) + extra
        return props + extra
    return None


# ---------------------------------------------------------------- helpers
def say(*args):
    print(*args, flush=True)


def digest(obj):
    return hashlib.sha1(json.dumps(obj, sort_keys=True).encode()).hexdigest()


def record(scenarios, workdir, tag):
    """runs the scenarios against the real package in a fresh interpreter"""
    scf = os.path.join(workdir, "sc-%s.json" % tag)
    trf = os.path.join(workdir, "tr-%s.json" % tag)
    for sc in scenarios:
        # fields added to the configuration over time (replays recorded before they existed)
        sc["cfg"].setdefault("cwait", [0] * sc["cfg"]["n"])
        sc["cfg"].setdefault("preshut", False)
        sc["cfg"].setdefault("xshut", False)
        sc["cfg"].setdefault("cout", ["cancelled"] * sc["cfg"]["n"])
        sc["cfg"].setdefault("scdur", [0] * sc["cfg"]["n"])
        sc["cfg"].setdefault("ucancel", -1)
    with open(scf, "w") as out:
        json.dump(scenarios, out)
    env = dict(os.environ, VERIF_REPO=REPO, PYTHONHASHSEED="0", ASYNCIOJOBS_VERIF="1")
    proc = subprocess.run([PY, os.path.join(HERE, "record.py"), scf, trf], env=env,
                          stdout=subprocess.PIPE, stderr=subprocess.PIPE, text=True)
    if proc.returncode != 0:
        raise tlc.TlcFailure("recorder failed: " + proc.stderr[-2000:])
    return trf


ACC = re.compile(r'^<<"ACC", (\d+)>>')
AT = re.compile(r'^"AT\|(\d+)\|(\d+)\|([^|"]*)\|(-?\d+)\|([^|"]*)"$')
SYM = re.compile(r'^"SYM\|(\d+)\|(.*)"$')


ACTION_COV = {}
ACTION_LOCK = threading.Lock()


def validate(trf, workdir, diag=False):
    """-> (accepted tids, frontier {tid: (l, {(k, n, why)})}, generated, distinct);
    with diag=True the frontier dict also has key ("sym", tid) -> list of properties"""
    cfg = "OrchestraTraceDiag.cfg" if diag else "OrchestraTrace.cfg"
    rc, out = tlc.run("OrchestraTrace.tla", cfg, env={"TRACE_FILE": trf}, workers=1,
                      scratch=workdir, heap="3g", extra=None if diag else ["-coverage", "1"])
    if "Model checking completed" not in out:
        errs = [ln for ln in out.splitlines() if "Error" in ln or "xception" in ln or "Attempted" in ln]
        raise tlc.TlcFailure("trace validation did not complete:\n" + "\n".join(errs[:20]) + "\n" + out[-1500:])
    if not diag:
        # which actions of the trace specification the traces exercised (L* = logged events,
        # Q* = silent actions inferred by TLC): transitions taken, summed over the shards
        with ACTION_LOCK:
            for name, (_, total) in tlc.coverage(out).items():
                if name[0] in "LQ" and name[1:2].isupper():
                    ACTION_COV[name] = ACTION_COV.get(name, 0) + total
    acc = set()
    front = {}
    for line in out.splitlines():
        m = ACC.match(line)
        if m:
            acc.add(int(m.group(1)))
            continue
        m = SYM.match(line)
        if m:
            front[("sym", int(m.group(1)))] = re.findall(r'(C\d+)', m.group(2))
            continue
        m = AT.match(line)
        if m:
            tid, pos = int(m.group(1)), int(m.group(2))
            item = (m.group(3), int(m.group(4)), m.group(5))
            cur = front.get(tid)
            if cur is None or cur[0] < pos:
                front[tid] = (pos, {item})
            elif cur[0] == pos:
                cur[1].add(item)
    gen, dist = tlc.stats(out)
    return acc, front, gen, dist


def shard_job(args):
    """one shard: record, validate, diagnose the rejected ones"""
    idx, scenarios, workdir = args
    trf = record(scenarios, workdir, "s%d" % idx)
    with open(trf) as inp:
        traces = json.load(inp)
    acc, _, gen, dist = validate(trf, workdir)
    rejected = []
    if len(acc) < len(traces):
        bad = [i for i in range(len(traces)) if (i + 1) not in acc]
        sub = [traces[i] for i in bad]
        subf = os.path.join(workdir, "rej-s%d.json" % idx)
        with open(subf, "w") as out:
            json.dump(sub, out)
        acc2, front, gen2, dist2 = validate(subf, workdir, diag=True)
        gen += gen2
        dist += dist2
        for j, i in enumerate(bad):
            if (j + 1) in acc2:
                raise tlc.TlcFailure("trace accepted by the diagnosis pass only")
            pos, items = front.get(j + 1, (0, {("?", 0, "no-frontier")}))
            syms = front.get(("sym", j + 1), [])
            rejected.append({"scenario": scenarios[i], "trace": traces[i],
                             "at": pos, "frontier": sorted(items),
                             "symptoms": syms})
        # outside the hypothesis of C03 a hang is a symptom of C03 only if the specification,
        # on that very scenario, cannot hang
        doubt = [r for r in rejected if "C03" in r["symptoms"] and not scenario.admissible(r["trace"]["cfg"])]
        if doubt:
            may = spec_can_hang([r["trace"] for r in doubt], workdir)
            for idx2, r in enumerate(doubt):
                if idx2 in may:
                    r["symptoms"] = [p for p in r["symptoms"] if p != "C03"]
    os.remove(trf)
    return traces, rejected, gen, dist


def trace_validate(scenarios, workdir):
    """-> (traces, rejected, generated, distinct)"""
    shards = [scenarios[i::NSHARDS] for i in range(NSHARDS)]
    shards = [s for s in shards if s]
    traces, rejected, gen, dist = [], [], 0, 0
    with concurrent.futures.ThreadPoolExecutor(max_workers=NSHARDS) as pool:
        for trs, rej, g, d in pool.map(shard_job, [(i, s, workdir) for i, s in enumerate(shards)]):
            traces += trs
            rejected += rej
            gen += g
            dist += d
    return traces, rejected, gen, dist


def model_check(prop, tier, seed, workdir):
    """-> dict(states, transitions, families=[...]); raises on failure"""
    res = {"states": 0, "transitions": 0, "families": []}
    for name in MC_FAMILIES[prop]:
        fam, exhaustive, desc = families.family(name, tier, seed)
        famf = os.path.join(workdir, "fam-%s.json" % name)
        with open(famf, "w") as out:
            json.dump(fam, out)
        start = time.time()
        rc, out = tlc.run("MC_Orch.tla", "MC_Orch.cfg", env={"FAMILY_FILE": famf},
                          workers=16, scratch=workdir, extra=["-coverage", "1"] if tier == "thorough" else None)
        bad = tlc.violated(out)
        if bad:
            cex = os.path.join(os.environ.get("VERIF_EVIDENCE_DIR") or os.path.join(ROOT, "evidence"),
                               "replays", "%s-spec-counterexample.txt" % prop)
            os.makedirs(os.path.dirname(cex), exist_ok=True)
            with open(cex, "w") as fh:
                fh.write(out)
            raise tlc.TlcFailure("the specification violates %s on family %s (see %s)"
                                 % (bad, name, cex))
        if "Model checking completed" not in out:
            raise tlc.TlcFailure("TLC failed on family %s:\n%s" % (name, out[-3000:]))
        gen, dist = tlc.stats(out)
        res["states"] += dist
        res["transitions"] += gen
        res["families"].append({"family": name, "description": desc, "configurations": len(fam),
                                "all_parameterisations": exhaustive, "distinct_states": dist,
                                "states_generated": gen, "wall_s": round(time.time() - start, 1),
                                "coverage": {k: v[1] for k, v in tlc.coverage(out).items()} or None})
    if prop == "C03":
        # liveness proper: under weak fairness every admissible configuration terminates
        fam, _, desc = families.family("never", tier, seed)
        fam = fam[:60 if tier == "quick" else 300]
        famf = os.path.join(workdir, "fam-live.json")
        with open(famf, "w") as out:
            json.dump(fam, out)
        start = time.time()
        rc, out = tlc.run("MC_Orch.tla", "MC_Orch_live.cfg", env={"FAMILY_FILE": famf},
                          workers=16, scratch=workdir)
        if tlc.violated(out) or "Temporal properties were violated" in out:
            raise tlc.TlcFailure("the specification does not guarantee termination:\n" + out[-4000:])
        if "Model checking completed" not in out:
            raise tlc.TlcFailure("TLC failed on the liveness configuration:\n" + out[-3000:])
        gen, dist = tlc.stats(out)
        res["states"] += dist
        res["transitions"] += gen
        res["families"].append({"family": "never (liveness: <>Terminated under WF(Next))", "description": desc,
                                "configurations": len(fam), "all_parameterisations": False,
                                "distinct_states": dist, "states_generated": gen,
                                "wall_s": round(time.time() - start, 1), "coverage": None})
    return res


# ---------------------------------------------------------------- non-triviality
def events(trace, kind):
    return [e for e in trace["ev"] if e["k"] == kind]


def nontrivial(prop, trace):
    """did the situation the property talks about occur in this real run?"""
    cfg = trace["cfg"]
    ev = trace["ev"]
    n = cfg["n"]
    kinds = {}
    for e in ev:
        kinds.setdefault(e["k"], []).append(e)
    diag = {e["n"]: e["v"] for e in kinds.get("diag", [])}
    starts = {e["n"]: e["t"] for e in kinds.get("start", [])}
    starts.update({e["n"]: e["t"] for e in kinds.get("run-begin", [])})
    if prop == "C01":
        return any(len(cfg["req"][j - 1]) >= 1 for j in starts if j != 1)
    if prop == "C02":
        ends = [e["t"] for e in kinds.get("end", []) + kinds.get("raise", [])]
        return len(ends) != len(set(ends)) or any(cfg["forever"][e["n"] - 1] for e in kinds.get("end", []))
    if prop == "C03":
        return bool(kinds.get("raise")) and any(w > 0 for w in cfg["win"]) or \
            any(d < 0 for d in cfg["dur"])
    if prop == "C04":
        return any(v != "fine" for v in diag.values())
    if prop == "C05":
        return any(v == "critical" for v in diag.values())
    if prop == "C06":
        return any(not cfg["crit"][e["n"] - 1] for e in kinds.get("raise", []))
    if prop == "C07":
        # a window was full at some point
        running = {}
        full = False
        for e in ev:
            if e["k"] in ("start", "run-begin") and e["n"] != 1:
                p = cfg["parent"][e["n"] - 1]
                running[p] = running.get(p, 0) + 1
                if cfg["win"][p - 1] and running[p] >= cfg["win"][p - 1]:
                    full = True
            if e["k"] in ("end", "raise", "cancel-done") or \
                    (e["k"] in ("run-end", "run-exc") and e["n"] != 1):
                p = cfg["parent"][e["n"] - 1]
                running[p] = running.get(p, 0) - 1
        return full
    if prop == "C08":
        return any(v == "timeout" for v in diag.values())
    if prop == "C09":
        return any(cfg["forever"][j - 1] for j in starts if j != 1)
    if prop == "C10":
        return any(e["n"] != 1 for e in kinds.get("run-end", []) + kinds.get("run-exc", []))
    if prop == "C11":
        return bool(kinds.get("cancel")) or any(e["v"] == "cancelled" for e in kinds.get("run-exc", []))
    if prop == "C12":
        ends = [e["t"] for e in kinds.get("end", []) + kinds.get("raise", [])]
        return len(ends) != len(set(ends)) or any(w > 0 for w in cfg["win"])
    if prop == "C13":
        return bool(kinds.get("shut-cancel")) or len(kinds.get("sshut", [])) > 2
    if prop == "C14":
        return len(kinds.get("snap", [])) >= 2
    return True


def excerpt(trace, limit=40):
    return {"cfg": trace["cfg"], "harness": trace.get("harness"),
            "events": ["%s@%s %s n%s %s %s" % (e["q"], e["t"], e["k"], e["n"], e["v"], e["i"])
                       for e in trace["ev"] if e["k"] != "snap"][:limit]}


# ---------------------------------------------------------------- metamorphic pairs
def flatten(cfg):
    """the flattened graph of a nested tree: (flat cfg, map flat id -> original id)"""
    n = cfg["n"]
    kind, parent, req = cfg["kind"], cfg["parent"], cfg["req"]

    def kids(s):
        return [k for k in range(2, n + 1) if parent[k - 1] == s]

    def ends(r):
        if kind[r - 1] == "job":
            return {r}
        ks = kids(r)
        if not ks:
            return flatreq(r)
        out = set()
        for k in ks:
            if not any(k in req[j - 1] for j in ks):
                out |= ends(k)
        return out

    def flatreq(x):
        if x == 1:
            return set()
        if req[x - 1]:
            out = set()
            for r in req[x - 1]:
                out |= ends(r)
            return out
        return flatreq(parent[x - 1])

    atoms = [i for i in range(2, n + 1) if kind[i - 1] == "job"]
    newid = {a: idx + 2 for idx, a in enumerate(atoms)}
    m = len(atoms) + 1
    flat = {"n": m, "pure": cfg["pure"], "kind": ["sched"] + ["job"] * (m - 1),
            "parent": [0] + [1] * (m - 1),
            "req": [[]] + [sorted(newid[r] for r in flatreq(a)) for a in atoms],
            "horizon": cfg.get("horizon", 0), "ucancel": cfg.get("ucancel", -1),
            "cwait": [0] * m, "preshut": bool(cfg.get("preshut", False)), "xshut": bool(cfg.get("xshut", False))}
    cout = cfg.get("cout", ["cancelled"] * n)
    flat["cout"] = [cout[0]] + [cout[a - 1] for a in atoms]
    for key in ("crit", "forever", "win", "tmo", "stmo", "dur", "out", "sdur", "cdur", "scdur"):
        flat[key] = [cfg[key][0]] + [cfg[key][a - 1] for a in atoms]
    back = [1] + atoms
    return flat, back


def flip_pairs(count, seed):
    import random
    rng = random.Random("flip-%d" % seed)
    base = tvfam.scenarios("C06", count * 2, seed)
    out = []
    for sc in base:
        cfg = sc["cfg"]
        cands = [j for j in range(2, cfg["n"] + 1) if cfg["kind"][j - 1] == "job"
                 and not cfg["crit"][j - 1] and cfg["dur"][j - 1] >= 0]
        if not cands:
            continue
        f = rng.choice(cands)
        a = json.loads(json.dumps(sc))
        b = json.loads(json.dumps(sc))
        a["cfg"]["out"][f - 1] = "ok"
        b["cfg"]["out"][f - 1] = "exc"
        ident = list(range(1, cfg["n"] + 1))
        out.append((a, b, f, ident, ident, "flip"))
        if len(out) >= count:
            break
    return out


def flat_pairs(count, seed):
    import random
    import scenario
    rng = random.Random("flat-%d" % seed)
    out = []
    while len(out) < count:
        kind, parent, req = scenario.tree(scenario.random_tree(rng, max_nodes=rng.choice([5, 8, 11]), p_sched=0.4))
        n = len(kind)
        if n < 3 or "sched" not in kind[1:]:
            continue
        jobs = [i for i in range(n) if kind[i] == "job"]
        cfg = scenario.mkcfg(
            kind, parent, req,
            crit=[rng.random() < 0.5 if kind[i] == "job" or i == 0 else True for i in range(n)],
            dur=[rng.choice([0, 1, 1, 2, 3]) if kind[i] == "job" else 0 for i in range(n)],
            out=[("exc" if rng.random() < 0.2 else "ok") if kind[i] == "job" else "ok" for i in range(n)],
            tmo=[-1] * n,
            pure=rng.random() < 0.2)
        flat, back = flatten(cfg)
        perm = list(range(1, n + 1))
        rng.shuffle(perm)
        ha = {"k": [rng.choice([0, 0, 1]) for _ in range(n)], "hash": perm,
              "flavour": [rng.choice(["abs", "job"]) for _ in range(n)], "verbose": False}
        hb = {"k": [ha["k"][i - 1] for i in back], "hash": [perm[i - 1] for i in back],
              "flavour": [ha["flavour"][i - 1] for i in back], "verbose": False}
        a = {"sid": 0, "cfg": cfg, "harness": ha, "snap": False}
        b = {"sid": 0, "cfg": flat, "harness": hb, "snap": False}
        out.append((a, b, 0, list(range(1, n + 1)), back, "flat"))
    return out


def extra_checks(prop, tier, seed, workdir):
    """C06 / C10: metamorphic pairs of real runs compared by TLC (TwinTrace),
    and for C06 the lock-step bisimulation on the model (OrchestraTwin)"""
    if prop not in ("C06", "C10"):
        return None
    import structcheck
    count = (1200 if tier == "quick" else 24000)
    pairs = flip_pairs(count, seed) if prop == "C06" else flat_pairs(count, seed)
    states = trans = 0
    model = None
    if prop == "C06":
        fam, _, desc = families.family("flat" if tier == "quick" else "nested", tier, seed)
        famf = os.path.join(workdir, "fam-twin.json")
        with open(famf, "w") as out:
            json.dump(fam, out)
        rc, out = tlc.run("OrchestraTwin.tla", "OrchestraTwin.cfg", env={"FAMILY_FILE": famf},
                          workers=16, scratch=workdir)
        if tlc.violated(out):
            raise tlc.TlcFailure("the specification is not outcome-blind for non-critical jobs:\n" + out[-3000:])
        if "Model checking completed" not in out:
            raise tlc.TlcFailure("TLC failed on OrchestraTwin:\n" + out[-3000:])
        gen, dist = tlc.stats(out)
        states += dist
        trans += gen
        model = {"module": "OrchestraTwin", "configurations": len(fam), "distinct_states": dist}

    def job(args):
        idx, chunk = args
        fa = record([p[0] for p in chunk], workdir, "pa%d" % idx)
        fb = record([p[1] for p in chunk], workdir, "pb%d" % idx)
        with open(fa) as inp:
            ta = json.load(inp)
        with open(fb) as inp:
            tb = json.load(inp)
        os.remove(fa)
        os.remove(fb)
        items = [{"mode": p[5], "f": p[2], "mapa": p[3], "mapb": p[4], "a": x["ev"], "b": y["ev"]}
                 for p, x, y in zip(chunk, ta, tb)]
        pf = os.path.join(workdir, "pairs-%d.json" % idx)
        with open(pf, "w") as out:
            json.dump(items, out)
        acc, front, gen, dist = structcheck.validate("TwinTrace.tla", "TwinTrace.cfg", pf, workdir)
        os.remove(pf)
        bad = []
        for i, p in enumerate(chunk):
            if (i + 1) not in acc:
                bad.append({"property": prop, "kind": "pair", "mode": p[5], "a": p[0], "b": p[1], "f": p[2],
                            "trace_a": ta[i], "trace_b": tb[i]})
        return len(chunk), bad, gen, dist

    chunks = [pairs[i::NSHARDS] for i in range(NSHARDS)]
    chunks = [(i, c) for i, c in enumerate(chunks) if c]
    total, bad = 0, []
    with concurrent.futures.ThreadPoolExecutor(max_workers=NSHARDS) as pool:
        for cnt, b, gen, dist in pool.map(job, chunks):
            total += cnt
            bad += b
            states += dist
            trans += gen
    return {"violations": bad[:20], "states": states, "transitions": trans,
            "coverage": {"pairs_compared": total, "pairs_differing": len(bad), "model": model,
                         "mode": "flip of one non-critical outcome" if prop == "C06" else "nested vs flattened"}}


# ---------------------------------------------------------------- corruption self-test
def _renumber(ev):
    for i, e in enumerate(ev):
        e["q"] = i + 1
    return ev


def corrupt(trace, kind):
    """one recorded field of an accepted trace is falsified; None when this
    trace offers no opportunity for that corruption"""
    tr = json.loads(json.dumps(trace))
    ev = tr["ev"]
    cfg = tr["cfg"]
    if kind == "start-before-requirement":
        for i, e in enumerate(ev):
            if e["k"] == "start" and cfg["req"][e["n"] - 1]:
                r = cfg["req"][e["n"] - 1][0]
                j = next((x for x in range(i) if ev[x]["n"] == r and ev[x]["k"] in ("end", "raise", "run-end", "run-exc")), None)
                if j is None or any(x["k"] == "tick" for x in ev[j:i]) is False:
                    pass
                if j is not None:
                    moved = ev.pop(i)
                    moved["t"] = ev[j]["t"]
                    ev.insert(j, moved)
                    return _renumber(ev) and tr
        return None
    if kind == "second-start":
        for i, e in enumerate(ev):
            if e["k"] == "start":
                ev.insert(i + 1, dict(e))
                return _renumber(ev) and tr
        return None
    if kind == "verdict-flipped":
        hit = False
        for e in ev:
            if e["n"] == 1 and e["k"] in ("run-end", "top") and e["v"] in ("true", "false"):
                e["v"] = "false" if e["v"] == "true" else "true"
                hit = True
        return tr if hit else None
    if kind == "shut-dropped":
        for i, e in enumerate(ev):
            if e["k"] == "shut":
                drop = {i} | {x for x in range(i, len(ev)) if ev[x]["n"] == e["n"] and ev[x]["k"] in ("shut-done", "shut-cancel", "shut-cancel-done")}
                tr["ev"] = _renumber([x for k, x in enumerate(ev) if k not in drop])
                return tr
        return None
    if kind == "start-delayed":
        # a job whose start is followed by a tick: claim it started after that tick
        for i, e in enumerate(ev):
            if e["k"] == "start":
                j = next((x for x in range(i + 1, len(ev)) if ev[x]["k"] == "tick"), None)
                if j is not None and not any(ev[x]["n"] == e["n"] for x in range(i + 1, j + 1)):
                    moved = ev.pop(i)
                    moved["t"] = ev[j - 1]["i"]
                    ev.insert(j, moved)
                    return _renumber(ev) and tr
        return None
    if kind == "cancel-dropped":
        for i, e in enumerate(ev):
            if e["k"] == "cancel":
                drop = {i} | {x for x in range(i, len(ev)) if ev[x]["n"] == e["n"] and ev[x]["k"] == "cancel-done"}
                tr["ev"] = _renumber([x for k, x in enumerate(ev) if k not in drop])
                return tr
        return None
    if kind == "late-event":
        ev.append({"q": 0, "t": ev[-1]["t"] + 1, "k": "end", "n": cfg["n"], "v": "-", "i": 0})
        return _renumber(ev) and tr
    return None


CORRUPTIONS = ["start-before-requirement", "second-start", "verdict-flipped", "shut-dropped",
               "start-delayed", "cancel-dropped", "late-event"]


def corruption_selftest(traces, workdir, per_kind=12):
    """corrupted copies of accepted traces must all be rejected by the trace
    specification; -> {kind: {"tried", "rejected", "attributed": {...}}}"""
    items, meta = [], []
    for kind in CORRUPTIONS:
        cnt = 0
        for tr in traces:
            if cnt >= per_kind:
                break
            bad = corrupt(tr, kind)
            if bad is not None:
                items.append(bad)
                meta.append(kind)
                cnt += 1
    if not items:
        return {}
    trf = os.path.join(workdir, "corrupt.json")
    with open(trf, "w") as out:
        json.dump(items, out)
    acc, front, _, _ = validate(trf, workdir, diag=True)
    os.remove(trf)
    res = {}
    for i, kind in enumerate(meta):
        slot = res.setdefault(kind, {"tried": 0, "rejected": 0, "attributed": {}})
        slot["tried"] += 1
        if (i + 1) in acc:
            continue
        slot["rejected"] += 1
        props = set(front.get(("sym", i + 1), []))
        for (_, _, code) in front.get(i + 1, (0, set()))[1]:
            props.update(attribute(code) or [])
        for p in sorted(props):
            slot["attributed"][p] = slot["attributed"].get(p, 0) + 1
    return res


# ---------------------------------------------------------------- outcome prediction
def summary_of_trace(trace):
    """the outcome summary of a real run, in the format of OrchestraPredict!SummaryOf"""
    cfg = trace["cfg"]
    n = cfg["n"]
    t0 = [-1] * (n + 1)
    te = [-1] * (n + 1)
    st = [0] * (n + 1)
    res = [(0, 0)] * (n + 1)
    cause = [0] * (n + 1)
    sh = [0] * (n + 1)
    for e in trace["ev"]:
        k, node = e["k"], e["n"]
        if k in ("start", "run-begin"):
            t0[node] = e["t"]
        elif k == "end":
            te[node], st[node], res[node] = e["t"], 1, (1, node)
        elif k == "raise":
            te[node], st[node], res[node] = e["t"], 2, (2, node)
        elif k == "cancel-done":
            te[node], st[node] = e["t"], 3
        elif k == "cancel-raise":
            te[node], st[node], res[node] = e["t"], 2, (2, node)
        elif k == "self-cancel":
            te[node], st[node] = e["t"], 4
        elif k == "run-end":
            te[node], st[node], res[node] = e["t"], 1, ((3, 0) if e["v"] == "true" else (4, 0))
        elif k == "run-exc":
            if e["v"] == "cancelled":
                te[node], st[node], cause[node] = e["t"], 3, 4
            else:
                te[node], st[node], res[node] = e["t"], 2, (2, e["i"])
        elif k == "diag":
            cause[node] = {"fine": 1, "timeout": 2, "critical": 3}.get(e["v"], 9)
        elif k == "shut-done":
            sh[node] = 1
        elif k == "shut-cancel":
            sh[node] = 2
        elif k == "top":
            break
    return [[t0[i], te[i], st[i], res[i][0], res[i][1], cause[i], sh[i]] for i in range(1, n + 1)]


OUT = re.compile(r'^"OUT\|(\d+)\|(.*)"$')


def predict(traces, workdir):
    """-> (misses, generated, distinct, sizes); misses = traces whose real outcome is
    not among the outcomes the specification allows for their scenario"""
    scf = os.path.join(workdir, "predict-%d.json" % id(traces))
    with open(scf, "w") as out:
        json.dump([{"sid": i + 1, "cfg": t["cfg"]} for i, t in enumerate(traces)], out)
    try:
        rc, out = tlc.run("OrchestraPredict.tla", "OrchestraPredict.cfg", env={"TRACE_FILE": scf},
                          workers=1, scratch=workdir, heap="3g", timeout=150)
    except tlc.TlcFailure:
        # a scenario with a large tie group: its interleavings are too many to enumerate
        return [], 0, 0, [-1] * len(traces)
    finally:
        os.remove(scf)
    bad = tlc.violated(out)
    if bad:
        raise tlc.TlcFailure("the specification violates %s on a scripted scenario:\n%s" % (bad, out[-4000:]))
    if "Model checking completed" not in out:
        raise tlc.TlcFailure("prediction did not complete:\n" + out[-3000:])
    allowed = {}
    for line in out.splitlines():
        m = OUT.match(line)
        if m:
            val = json.loads(m.group(2).replace("<<", "[").replace(">>", "]"))
            allowed.setdefault(int(m.group(1)), set()).add(json.dumps(val))
    misses = []
    sizes = []
    for i, tr in enumerate(traces):
        outs = allowed.get(i + 1, set())
        sizes.append(len(outs))
        top = next((e for e in tr["ev"] if e["k"] == "top"), None)
        if top is None or top["v"] in ("deadlock", "livelock"):
            misses.append((tr, "no-termination", len(outs)))
        elif json.dumps(summary_of_trace(tr)) not in outs:
            misses.append((tr, "outcome-not-allowed", len(outs)))
    gen, dist = tlc.stats(out)
    return misses, gen, dist, sizes


STUCKLINE = re.compile(r'^"STUCK\|(\d+)"$')


def spec_can_hang(traces, workdir):
    """-> indices of the traces on whose scenario the specification has a reachable stuck state
    (all of them when the exploration cannot be completed)"""
    scf = os.path.join(workdir, "hang-%d.json" % id(traces))
    with open(scf, "w") as out:
        json.dump([{"sid": i + 1, "cfg": t["cfg"]} for i, t in enumerate(traces)], out)
    try:
        rc, out = tlc.run("OrchestraPredict.tla", "OrchestraPredict.cfg", env={"TRACE_FILE": scf},
                          workers=1, scratch=workdir, heap="3g", timeout=150)
    except tlc.TlcFailure:
        return set(range(len(traces)))
    finally:
        os.remove(scf)
    if "Model checking completed" not in out:
        return set(range(len(traces)))
    return {int(m.group(1)) - 1 for m in (STUCKLINE.match(line) for line in out.splitlines()) if m}


def predictable(trace):
    """small enough for an exhaustive exploration of every tie: at most 8 nodes and
    at most 3 completions in any one instant"""
    if trace["cfg"]["n"] > 8 or (trace.get("harness") or {}).get("stall"):
        return False
    if any(e["k"] == "top" and e["v"] in ("deadlock", "livelock") for e in trace["ev"]):
        return False        # a run that hangs has no outcome to predict (C03's family, outside its hypothesis)
    per = {}
    for e in trace["ev"]:
        if e["k"] in ("end", "raise", "cancel-done", "shut-done"):
            per[(e["k"][:4], e["t"])] = per.get((e["k"][:4], e["t"]), 0) + 1
    return max(per.values(), default=0) <= 3


def predict_all(traces, workdir):
    shards = [traces[i::NSHARDS] for i in range(NSHARDS)]
    shards = [s for s in shards if s]
    misses, gen, dist, sizes = [], 0, 0, []
    with concurrent.futures.ThreadPoolExecutor(max_workers=NSHARDS) as pool:
        for m, g, d, z in pool.map(lambda s: predict(s, workdir), shards):
            misses += m
            gen += g
            dist += d
            sizes += z
    return misses, gen, dist, sizes


# ---------------------------------------------------------------- spec -> code: simulated behaviours
SIM = re.compile(r'^"SIM\|(.*)"$')


def simulate_scenarios(count, seed, workdir, family="nested"):
    """behaviours generated by `tlc -simulate` on Orchestra (free mode), each turned
    into a scripted scenario: the durations and outcomes the behaviour chose"""
    import random
    rng = random.Random("sim-%d" % seed)
    fam, _, _ = families.family(family, "thorough", seed)
    rng.shuffle(fam)
    fam = fam[:400]
    famf = os.path.join(workdir, "fam-sim.json")
    with open(famf, "w") as out:
        json.dump(fam, out)
    rc, out = tlc.run("MC_Orch.tla", "MC_Orch_sim.cfg", env={"FAMILY_FILE": famf}, workers=1,
                      scratch=workdir, timeout=300 if count <= 1000 else 1500,
                      extra=["-simulate", "num=%d" % count, "-depth", "120", "-seed", str(seed + 1)])
    if tlc.violated(out):
        raise tlc.TlcFailure("simulation found the specification violating a property:\n" + out[-3000:])
    scen = []
    seen = set()
    for line in out.splitlines():
        m = SIM.match(line)
        if not m:
            continue
        rec = json.loads(m.group(1).replace('\\"', '"'))
        c = rec["c"]
        n = c["n"]
        dur, outc = [], []
        for i in range(n):
            if c["kind"][i] == "sched":
                dur.append(0)
                outc.append("ok")
            elif c["dur"][i] == -1:
                dur.append(-1)
                outc.append("ok")
            elif rec["st"][i] in ("ok", "exc"):
                dur.append(rec["te"][i] - rec["t0"][i])
                outc.append(rec["st"][i])
            elif rec["nstart"][i] > 0 and rec["tc"][i] >= 0:
                dur.append(rec["tc"][i] - rec["t0"][i] + rng.choice([1, 1, 2]))
                outc.append(rng.choice(["ok", "ok", "exc"]))
            else:
                dur.append(rng.choice([0, 1, 2]))
                outc.append(rng.choice(["ok", "ok", "exc"]))
        cfg = dict(c, dur=dur, out=outc, horizon=0)
        key = json.dumps(cfg, sort_keys=True)
        if key in seen:
            continue
        seen.add(key)
        perm = list(range(1, n + 1))
        rng.shuffle(perm)
        scen.append({"sid": len(scen) + 1, "cfg": cfg, "snap": False,
                     "harness": {"k": [rng.choice([0, 0, 1, 2]) for _ in range(n)], "hash": perm,
                                 "flavour": [rng.choice(["abs", "job"]) for _ in range(n)],
                                 "verbose": False, "prep": 0}})
    return scen


def symptoms_of(traces, workdir):
    """trace-level property symptoms (OrchestraSymptoms) of each trace, by TLC"""
    trf = os.path.join(workdir, "sym-%d.json" % id(traces))
    with open(trf, "w") as out:
        json.dump(traces, out)
    _, front, _, _ = validate(trf, workdir, diag=True)
    os.remove(trf)
    return [front.get(("sym", i + 1), []) for i in range(len(traces))]
