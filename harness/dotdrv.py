"""
Builds scheduler trees with the real classes and records what dot_format()
and list() produce (raw text), plus the id the library assigned to each node
(repr_id()).

Usage: dotdrv.py <trees.json> <out.json>

A tree: {"tid", "pure", "kind", "parent", "req", "crit", "forever",
         "label": [list of code points | null], "flavour": [...], "hash": [...]}
nodes are 1..n, node 1 is the top scheduler.
"""

import contextlib
import io
import json
import os
import signal
import sys
import warnings

REPO = os.environ.get("VERIF_REPO", "/repo")
sys.path.insert(0, REPO)
warnings.simplefilter("ignore")

import asynciojobs                                      # noqa: E402
from asynciojobs import AbstractJob, Job, Scheduler, PureScheduler  # noqa: E402

assert os.path.realpath(asynciojobs.__file__).startswith(os.path.realpath(REPO))


def build(tree):
    n = len(tree["kind"])
    hashes = tree.get("hash") or list(range(1, n + 1))

    class Hashed:
        def __hash__(self):
            return self._vhash

        def __eq__(self, other):
            return self is other

    class Labelled:
        """user subclasses may provide text_label() / graph_label()"""
        _vtext = None
        _vgraph = None

        def text_label(self):
            return self._vtext

        def graph_label(self):
            return self._vgraph

    class DJob(Hashed, Labelled, AbstractJob):
        pass

    class DSched(Hashed, Labelled, Scheduler):
        pass

    kids = {i: [] for i in range(1, n + 1)}
    for i in range(2, n + 1):
        kids[tree["parent"][i - 1]].append(i)
    obj = {}

    def text(cps):
        return None if cps is None else "".join(chr(c) for c in cps)

    def label(i):
        return text(tree["label"][i - 1])

    def decorate(o, i):
        o._vtext = text((tree.get("tlabel") or [None] * n)[i - 1])
        o._vgraph = text((tree.get("glabel") or [None] * n)[i - 1])

    def mk(i):
        if tree["kind"][i - 1] == "job":
            o = DJob.__new__(DJob)
            o._vhash = hashes[i - 1]
            AbstractJob.__init__(o, critical=tree["crit"][i - 1], forever=tree["forever"][i - 1],
                                 label=label(i))
        else:
            members = [mk(k) for k in kids[i]]
            if i == 1 and tree["pure"]:
                o = PureScheduler(*members)
            else:
                o = DSched.__new__(DSched)
                o._vhash = hashes[i - 1]
                Scheduler.__init__(o, *members, critical=tree["crit"][i - 1],
                                   forever=tree["forever"][i - 1], label=label(i))
        obj[i] = o
        if not (i == 1 and tree["pure"]):
            decorate(o, i)
        return o
    mk(1)
    if tree.get("pre"):
        # the tree is first given the opposite requirements, listed and rendered, then
        # edited into its final shape: numbering must follow the graph as it is now
        for i in range(2, n + 1):
            for r in tree["req"][i - 1]:
                obj[r].requires(obj[i])
        sink = io.StringIO()
        with contextlib.redirect_stdout(sink):
            try:
                obj[1].list()
                obj[1].dot_format()
            except BaseException:                       # pylint: disable=W0703
                pass
        for i in range(2, n + 1):
            for r in tree["req"][i - 1]:
                obj[r].requires(obj[i], remove=True)
    for i in range(2, n + 1):
        for r in tree["req"][i - 1]:
            obj[i].requires(obj[r])
    if tree.get("pre") == 2:
        # rendered once, then one job of each nested scheduler is taken out and put back
        # (a tree that grows between two exports)
        sink = io.StringIO()
        held = []
        for s in range(2, n + 1):
            if tree["kind"][s - 1] == "sched" and kids[s]:
                held.append((s, kids[s][-1]))
                obj[s].remove(obj[kids[s][-1]])
        with contextlib.redirect_stdout(sink):
            try:
                obj[1].dot_format()
            except BaseException:                       # pylint: disable=W0703
                pass
        for s, k in held:
            obj[k]._sched_id = None                     # a job that was never numbered
            obj[s].add(obj[k])
    if tree.get("pre") == 3:
        # rendered once, then every nested scheduler is listed on its own
        sink = io.StringIO()
        with contextlib.redirect_stdout(sink):
            try:
                obj[1].dot_format()
                for s in range(2, n + 1):
                    if tree["kind"][s - 1] == "sched":
                        obj[s].list()
            except BaseException:                       # pylint: disable=W0703
                pass
    if tree.get("pre") == 4:
        # a tree that shrinks between a listing and an export: every non-empty scheduler first
        # holds one more job, behind all its members (its only exit); everything is listed
        # (which computes back-links and exits at every level), the extra jobs are taken out
        # again (nobody requires them: the tree stays closed), and the export is judged on
        # what is left
        extras = []
        for s in range(1, n + 1):
            if tree["kind"][s - 1] == "sched" and kids[s]:
                x = DJob.__new__(DJob)
                x._vhash = max(hashes) + 1 + s
                AbstractJob.__init__(x, label="extra%d" % s)
                for k in kids[s]:
                    x.requires(obj[k])
                obj[s].add(x)
                extras.append((s, x))
        sink = io.StringIO()
        with contextlib.redirect_stdout(sink):
            try:
                obj[1].list()
                for s in range(2, n + 1):
                    if tree["kind"][s - 1] == "sched":
                        obj[s].list()
                        obj[s].exit_jobs()
                        obj[s].entry_jobs()
            except BaseException:                       # pylint: disable=W0703
                pass
        for s, x in extras:
            obj[s].remove(x)
    return obj


class WallClock(BaseException):
    """a call into the library is taking real time (it loops, or waits for something)"""


def _alarm(_signum, _frame):
    raise WallClock()


def run_tree(item):
    signal.signal(signal.SIGALRM, _alarm)
    signal.setitimer(signal.ITIMER_REAL, 15, 15)
    try:
        return _run_tree(item)
    finally:
        signal.setitimer(signal.ITIMER_REAL, 0)


def _run_tree(tree):
    n = len(tree["kind"])
    out = {"tid": tree["tid"], "tree": tree}
    sink = io.StringIO()
    with contextlib.redirect_stdout(sink):
        obj = build(tree)
        try:
            out["dot"] = obj[1].dot_format()
            out["dotexc"] = "none"
        except BaseException as exc:                    # pylint: disable=W0703
            out["dot"] = ""
            out["dotexc"] = "%s:%s" % (type(exc).__name__, exc)
        out["rid"] = [""] + [obj[i].repr_id() for i in range(2, n + 1)]
    # list(): plain labels so that the listing can be split into fields
    for i in range(2, n + 1):
        obj[i].label = "L%d" % i
    text = io.StringIO()
    with contextlib.redirect_stdout(text):
        try:
            obj[1].list()
            out["listexc"] = "none"
        except BaseException as exc:                    # pylint: disable=W0703
            out["listexc"] = "%s:%s" % (type(exc).__name__, exc)
    out["list"] = text.getvalue()
    out["rid2"] = [""] + [obj[i].repr_id() for i in range(2, n + 1)]
    return out


def main(argv):
    with open(argv[1]) as inp:
        trees = json.load(inp)
    res = [run_tree(t) for t in trees]
    with open(argv[2], "w") as outp:
        json.dump(res, outp, separators=(",", ":"))


if __name__ == "__main__":
    main(sys.argv)
