"""
C20: dot_format() and list() of scheduler trees built with the real classes,
parsed by the strict DOT parser and judged by TLC against Dot.tla.
"""

import concurrent.futures
import json
import os
import random
import re
import subprocess
import sys
import time

import dotparse
import structcheck
import tlc
from scenario import tree as mktree, random_tree, J, S

LABEL_POOL = [
    "plain", "two words", "", None, 'say "hi"', '"', 'a"b"c', "line1\nline2", "\n", "tab\there",
    "semi;colon", "{braces}", "[brackets]", "a -> b", "a=b,c", "<html>", "#hash", "// not a comment",
    "/* c */", "café", "☃ snowman", "日本語", "emoji \U0001F600", "percent %d {}",
    "digraph", "subgraph cluster_1", "ends with quote\"", "\"starts", "comma, separated", "  spaces  ",
]


def one_tree(rng, tid, shape=None):
    if shape is None:
        want_ten = rng.random() < 0.15
        want_more = not want_ten and rng.random() < 0.12
        while True:
            kind, parent, req = mktree(random_tree(rng, max_nodes=14 if want_more else 11 if want_ten else
                                                   rng.choice([4, 7, 11]), p_sched=0.35))
            # a power of ten as the number of ids is where zero-padding changes width; beyond it
            # ids have two digits, those of the first nested schedulers a padded one
            if len(kind) >= 2 and (not want_ten or len(kind) == 11) and (not want_more or len(kind) >= 12):
                break
    else:
        kind, parent, req = shape
    n = len(kind)
    perm = list(range(1, n + 1))
    rng.shuffle(perm)
    labels = []
    for _ in range(n):
        lab = rng.choice(LABEL_POOL)
        labels.append(None if lab is None else [ord(c) for c in lab])
    def some(prob):
        out = []
        for _ in range(n):
            lab = rng.choice([x for x in LABEL_POOL if x]) if rng.random() < prob else None
            out.append(None if lab is None else [ord(c) for c in lab])
        return out
    return {"tid": tid, "pure": rng.random() < 0.3, "pre": rng.choice([0, 0, 0, 1, 1, 2, 3, 4, 4]),
            "tlabel": some(0.25), "glabel": some(0.15),
            "kind": kind, "parent": parent, "req": req,
            "crit": [rng.random() < 0.5 for _ in range(n)],
            "forever": [rng.random() < 0.3 for _ in range(n)], "label": labels, "hash": perm}


SHAPES = [S([J(), S([]), J(0)]), S([S([]), J()]), S([J(), S([], 0)]), S([J(), S([], 0), J(1)]),
          S([S([]), S([], 0)]), S([S([S([])]), J(0)]), S([J(), S([S([J()])], 0), J(1)]),
          S([S([J(), J()]), S([J(), J(0)], 0)]), S([J(), J(), S([J(), J(), J(0, 1)], 0, 1), J(2), J(2)])]


def trees(tier, seed):
    rng = random.Random("dot-%s-%d" % (tier, seed))
    count = 1500 if tier == "quick" else 30000
    out = []
    for i in range(count):
        shape = mktree(SHAPES[i % len(SHAPES)]) if i % 12 == 0 else None
        tree = one_tree(rng, i + 1, shape)
        # most random trees that fall under known finding K1 are drawn again: a few are kept
        # so that the finding stays exercised, the rest of the budget goes to real checking
        tries = 0
        while shape is None and has_k1_shape(tree) and rng.random() < 0.85 and tries < 20:
            tree = one_tree(rng, i + 1, None)
            tries += 1
        out.append(tree)
    return out


def cps(text):
    return [ord(c) for c in text]


LINE = re.compile(r"^(\S+)\s")


def parse_list(text, n):
    """-> {"status", "lines": [...]}"""
    lines = []
    for raw in text.split("\n"):
        if not raw.strip():
            continue
        m = LINE.match(raw)
        if not m:
            return {"status": "unparsed", "lines": []}
        ident = m.group(1)
        fields = raw.split()
        end = len(fields) > 1 and fields[1] == "--end--"
        lab = re.search(r"`L(\d+)`", raw)
        node = int(lab.group(1)) if lab else 0
        rq = re.search(r"requires=\{([^}]*)\}", raw)
        reqs = [x.strip() for x in rq.group(1).split(",")] if rq else []
        lines.append({"id": ident, "end": bool(end), "node": node if node <= n else 0,
                      "num": int(ident) if ident.isdigit() else -1, "reqs": reqs})
    return {"status": "ok", "lines": lines}


def attr(attrs, key):
    return attrs.get(key, "")


def observe(rec):
    """driver record -> the case TLC judges"""
    tree = rec["tree"]
    n = len(tree["kind"])
    case_tree = {"n": n, "kind": tree["kind"], "parent": tree["parent"], "req": tree["req"],
                 "crit": tree["crit"], "forever": tree["forever"],
                 "label": [[-1] if lab is None else lab for lab in tree["label"]],
                 "tlabel": [[-1] if lab is None else lab for lab in (tree.get("tlabel") or [None] * n)],
                 "glabel": [[-1] if lab is None else lab for lab in (tree.get("glabel") or [None] * n)],
                 "rid": rec["rid"], "ridcps": [cps(r) for r in rec["rid"]], "rid2": rec["rid2"]}
    obs = {"nodes": [], "clusters": [], "edges": []}
    status = "ok"
    detail = ""
    if rec["dotexc"] != "none":
        status, detail = "raises", rec["dotexc"]
    else:
        try:
            parsed = dotparse.parse(rec["dot"])
            for node in parsed["nodes"]:
                a = node["attrs"]
                obs["nodes"].append({"id": node["id"], "cluster": node["cluster"],
                                     "style": [s for s in attr(a, "style").split(",") if s],
                                     "label": cps(attr(a, "label")), "shape": attr(a, "shape"),
                                     "color": attr(a, "color"), "penwidth": attr(a, "penwidth"),
                                     "explicit": bool(node["explicit"])})
            for cl in parsed["clusters"]:
                a = cl["attrs"]
                obs["clusters"].append({"name": cl["name"], "parent": cl["parent"],
                                        "style": [s for s in attr(a, "style").split(",") if s],
                                        "label": cps(attr(a, "label")), "shape": attr(a, "shape"),
                                        "color": attr(a, "color"), "penwidth": attr(a, "penwidth")})
            for edge in parsed["edges"]:
                a = edge["attrs"]
                obs["edges"].append({"tail": edge["tail"], "head": edge["head"],
                                     "lhead": attr(a, "lhead"), "ltail": attr(a, "ltail"),
                                     "nother": len([k for k in a if k not in ("lhead", "ltail")])})
            if parsed["top_attrs"].get("compound") != "true" and (obs["clusters"]):
                status, detail = "syntax", "compound=true missing: lhead/ltail would be ignored"
        except dotparse.DotSyntaxError as exc:
            status, detail = "syntax", str(exc)
    if rec["listexc"] != "none":
        lst = {"status": "raises", "lines": []}
    else:
        lst = parse_list(rec["list"], n)
    return {"tid": rec["tid"], "tree": case_tree, "status": status, "detail": detail, "obs": obs, "lst": lst,
            "listonly": bool(rec["tree"].get("listonly"))}


def second_opinion(texts):
    """`dot -Tcanon` on a sample of renderings: a syntax error there is a finding too"""
    bad = []
    for tid, text in texts:
        proc = subprocess.run(["dot", "-Tcanon"], input=text, stdout=subprocess.PIPE,
                              stderr=subprocess.PIPE, text=True)
        if proc.returncode != 0 or "syntax error" in proc.stderr:
            bad.append((tid, proc.stderr[:300]))
    return bad


def _kids(tree, s):
    n = len(tree["kind"])
    return [k for k in range(2, n + 1) if tree["parent"][k - 1] == s]


def reaches_empty(tree, s, mode):
    """can the walk dot_format() makes from scheduler s towards an atomic entry
    (mode "entry") or exit (mode "exit") job end in a scheduler with no member?"""
    kids = _kids(tree, s)
    if not kids:
        return True
    if mode == "entry":
        cands = [k for k in kids if not tree["req"][k - 1]]
    else:
        cands = [k for k in kids if not any(k in tree["req"][j - 1] for j in kids)]
    return any(tree["kind"][k - 1] == "sched" and reaches_empty(tree, k, mode) for k in cands)


def has_k1_shape(tree):
    """a nested scheduler with a requirement edge from which the walk towards an
    atomic entry / exit job can end in an empty nested scheduler"""
    n = len(tree["kind"])
    for s in range(2, n + 1):
        if tree["kind"][s - 1] != "sched":
            continue
        incoming = bool(tree["req"][s - 1])
        outgoing = any(s in tree["req"][j - 1] for j in range(2, n + 1))
        if incoming and reaches_empty(tree, s, "entry"):
            return True
        if outgoing and reaches_empty(tree, s, "exit"):
            return True
    return False


def known_findings():
    path = os.path.join(structcheck.ROOT, "known_findings.json")
    with open(path) as inp:
        data = json.load(inp)
    out = []
    for entry in data.get("open", []):
        if entry["property"] != "C20":
            continue

        def match(rej, entry=entry):
            rec = rej["recorded"]
            return rej["clause"] == "dot-format-raises" and \
                any(rec["dotexc"].startswith(sig) for sig in entry["signature"]["exception_prefixes"]) and \
                has_k1_shape(rec["tree"])
        out.append({"id": entry["id"], "text": entry["text"], "match": match})
    return out


DOT_ATTR = [(r"^list$", r".*", ["C20", "C15"]), (r".*", r".*", ["C20"])]


def list_rejections(tier, seed, workdir, count):
    """for C15: only the listing part (numbering in topological order) of a smaller family"""
    items = trees(tier, seed + 1000)[:count]
    for item in items:
        item["listonly"] = True        # judged on the listing alone, whatever the rendering is like
    recs, rejected = run_all(items, workdir)[:2]
    return recs, [r for r in rejected if r["op"] == "list"]


def shard(args):
    idx, items, workdir = args
    outf = structcheck.run_driver("dotdrv.py", items, workdir, "d%d" % idx)
    with open(outf) as inp:
        recs = json.load(inp)
    os.remove(outf)
    cases = [observe(r) for r in recs]
    casef = os.path.join(workdir, "cases-%d.json" % idx)
    with open(casef, "w") as out:
        json.dump(cases, out)
    acc, front, gen, dist = structcheck.validate("DotTrace.tla", "DotTrace.cfg", casef, workdir)
    os.remove(casef)
    rejected = []
    for i, rec in enumerate(recs):
        if (i + 1) in acc:
            continue
        at = front.get(i + 1, (0, "?", "no-frontier"))
        rejected.append({"input": items[i], "recorded": rec, "at": at[0], "op": at[1], "clause": at[2],
                         "detail": cases[i]["detail"]})
    return recs, rejected, gen, dist


def run_all(items, workdir):
    n = structcheck.NSHARDS
    shards = [items[i::n] for i in range(n)]
    shards = [s for s in shards if s]
    recs, rejected, gen, dist = [], [], 0, 0
    with concurrent.futures.ThreadPoolExecutor(max_workers=n) as pool:
        for r, rej, g, d in pool.map(shard, [(i, s, workdir) for i, s in enumerate(shards)]):
            recs += r
            rejected += rej
            gen += g
            dist += d
    return recs, rejected, gen, dist


def run(tier, seed, workdir):
    started = time.time()
    items = trees(tier, seed)
    recs, rejected, gen, dist = run_all(items, workdir)
    # second opinion on syntax from graphviz itself, when installed
    canon = None
    if subprocess.run(["which", "dot"], stdout=subprocess.PIPE).returncode == 0:
        sample = [(r["tid"], r["dot"]) for r in recs if r["dotexc"] == "none"][:200 if tier == "quick" else 3000]
        bad = second_opinion(sample)
        canon = {"checked": len(sample), "rejected_by_graphviz": len(bad)}
        for tid, msg in bad:
            rec = next(r for r in recs if r["tid"] == tid)
            if not any(x["recorded"]["tid"] == tid for x in rejected):
                rejected.append({"input": rec["tree"], "recorded": rec, "at": 1, "op": "dot",
                                 "clause": "graphviz-syntax", "detail": msg})
    seen = set()
    nontriv = 0
    for rec in recs:
        t = rec["tree"]
        key = json.dumps([t["kind"], t["parent"], t["req"], t["crit"], t["forever"], t["label"], t["pure"]])
        if key in seen:
            continue
        seen.add(key)
        if "sched" in t["kind"][1:] and any(t["req"]):
            nontriv += 1
    samples = [{"tree": {k: v for k, v in recs[0]["tree"].items() if k != "hash"}, "dot": recs[0]["dot"][:600]}]
    cov = {"states": max(dist, 1), "transitions": max(gen, 1),
           "rule": "seeded random scheduler trees (depth <= 3, empty nested schedulers included, labels from a "
                   "pool of quotes, newlines, DOT punctuation, tabs, non-ASCII, empty, none) rendered by the real "
                   "classes; the DOT text is parsed by a strict parser and TLC judges observed structure = "
                   "expected structure (Dot.tla), same for list(); distinct = distinct tree; non-trivial = has a "
                   "nested scheduler and at least one requirement",
           "graphviz_second_opinion": canon, "exhaustive": False}
    return structcheck.finish("C20", tier, seed, started, len(items), recs, rejected, DOT_ATTR, cov,
                              nontriv, samples, known=known_findings())


def replay(payload, path, workdir):
    recs, rejected, _, _ = run_all([payload["input"]], workdir)
    known = known_findings()
    rejected = [r for r in rejected if not any(k["match"](r) for k in known)]
    if not rejected:
        print("replay: this tree is now rendered faithfully (or is a known finding)")
        return 0
    print("replay: rejected: %s %s" % (rejected[0]["clause"], rejected[0].get("detail", "")))
    print("VIOLATION property=C20 replay=%s" % path)
    return 1
