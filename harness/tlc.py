"""
Thin driver around TLC: runs a module with a configuration and environment,
returns its output, and parses the statistics / verdict lines.
"""

import os
import re
import shutil
import subprocess
import tempfile

SPEC_DIR = os.path.join(os.path.dirname(os.path.dirname(os.path.abspath(__file__))), "spec")
JAR = "/opt/veriftools/tla/tla2tools.jar:/opt/veriftools/tla/CommunityModules-deps.jar"


class TlcFailure(Exception):
    """TLC itself failed (parse error, evaluation error, crash, timeout)"""


def run(module, cfg, env=None, workers=1, timeout=3600, scratch=None, extra=None, heap=None):
    """-> stdout of TLC (str).  `scratch` is the directory for -metadir."""
    meta = tempfile.mkdtemp(prefix="tlcmeta-", dir=scratch)
    cmd = ["java", "-XX:+UseParallelGC", "-Xss64m"]
    if heap:
        cmd.append("-Xmx" + heap)
    cmd += ["-cp", JAR, "tlc2.TLC", "-workers", str(workers), "-metadir", meta,
            "-noGenerateSpecTE", "-config", cfg]
    if extra:
        cmd += extra
    cmd.append(module)
    full_env = dict(os.environ)
    if env:
        full_env.update(env)
    try:
        proc = subprocess.run(cmd, cwd=SPEC_DIR, env=full_env, stdout=subprocess.PIPE,
                              stderr=subprocess.STDOUT, timeout=timeout, text=True)
    except subprocess.TimeoutExpired as exc:
        raise TlcFailure("TLC timed out after %ss on %s" % (timeout, module)) from exc
    finally:
        shutil.rmtree(meta, ignore_errors=True)
    return proc.returncode, proc.stdout


STATS = re.compile(r"(\d+) states generated, (\d+) distinct states found")


def stats(out):
    """(generated, distinct) from TLC's final line; (0, 0) if absent"""
    hits = STATS.findall(out)
    if not hits:
        return 0, 0
    gen, dist = hits[-1]
    return int(gen), int(dist)


def violated(out):
    """names of invariants / properties TLC reports as violated"""
    names = re.findall(r"Invariant (\S+) is violated", out)
    names += re.findall(r"Action property (\S+) is violated", out)
    names += re.findall(r"Temporal properties were violated", out)
    return names


def failed(out):
    """True when TLC reports an error that is not a property violation"""
    if violated(out):
        return False
    return "Error:" in out or "Exception" in out and "Model checking completed" not in out \
        or ("Model checking completed" not in out and "Finished in" not in out)


def coverage(out):
    """per-action counts from `-coverage 1` output: {action: (distinct, total)}"""
    cov = {}
    for m in re.finditer(r"<(\w+) line \d+, col \d+ to line \d+, col \d+ of module (\w+)>: (\d+):(\d+)", out):
        name = m.group(1)
        dist, tot = int(m.group(3)), int(m.group(4))
        old = cov.get(name, (0, 0))
        cov[name] = (max(old[0], dist), max(old[1], tot))
    return cov


def printed(out):
    """the lines TLC printed through PrintT: those starting with <<"""
    return [ln for ln in out.splitlines() if ln.startswith("<<")]
