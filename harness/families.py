"""
Model families for TLC on Orchestra (free mode: durations and outcomes are
chosen by the environment inside the behaviour, `dur = -2`, `out = "any"`),
written as JSON arrays of configurations.

Every family is the product of a few shapes with parameter grids; when the
product exceeds `cap` a seeded sample of it is taken (and the evidence says
`exhaustive: false` for the family, although each sampled configuration is
explored exhaustively: every interleaving, every duration up to the horizon,
every outcome).
"""

import itertools
import random

from scenario import (mkcfg, flat, all_dags, tree, J, S, jobs_of, scheds_of,
                      admissible)


def _grid(shape, rng, cap, horizon, opts):
    """all parameterisations of one shape (lazily), as configurations"""
    kind, parent, req = shape
    n = len(kind)
    jobs = [i for i in range(n) if kind[i] == "job"]
    scheds = [i for i in range(n) if kind[i] == "sched"]
    crit_s = opts.get("crit_s", [False, True])
    axes = []
    names = []
    for i in jobs:
        axes.append(opts.get("jobflags", [(False, False), (True, False), (False, True)]))
        names.append(("jf", i))
        axes.append(opts.get("sdur", [0]))
        names.append(("sdur", i))
        axes.append(opts.get("cdur", [0]))
        names.append(("cdur", i))
        axes.append(opts.get("scdur", [0]))
        names.append(("scdur", i))
        axes.append(opts.get("cout", ["cancelled"]))
        names.append(("cout", i))
        axes.append(opts.get("dur", [-2]))
        names.append(("dur", i))
    for i in scheds:
        axes.append(opts.get("win", [0]))
        names.append(("win", i))
        axes.append(opts.get("tmo", [-1]))
        names.append(("tmo", i))
        axes.append(opts.get("stmo", [1]))
        names.append(("stmo", i))
        if i != 0:
            axes.append(opts.get("schedflags", [(False, False), (True, False)]))
            names.append(("jf", i))
        else:
            axes.append([(c, False) for c in crit_s])
            names.append(("jf", i))
    axes.append(opts.get("pure", [False]))
    names.append(("pure", 0))
    axes.append(opts.get("ucancel", [-1]))
    names.append(("ucancel", 0))
    axes.append(opts.get("preshut", [False]))
    names.append(("preshut", 0))
    axes.append(opts.get("xshut", [False]))
    names.append(("xshut", 0))
    # the first job that nobody requires ends in CancelledError on its own
    axes.append(opts.get("selfc", [False]))
    names.append(("selfc", 0))
    # clean-ups that wait for a sibling's cancellation: between the first two entry jobs of
    # every scheduler that has two ("pair": one way, "mutual": both ways)
    axes.append(opts.get("cwait", [None]))
    names.append(("cwait", 0))
    total = 1
    for ax in axes:
        total *= len(ax)

    def build(choice):
        kw = {key: [None] * n for key in
              ("crit", "forever", "sdur", "cdur", "scdur", "cout", "dur", "win", "tmo", "stmo")}
        pure = False
        ucancel = -1
        preshut = False
        xshut = False
        selfc = False
        cwait = [0] * n
        for (name, i), val in zip(names, choice):
            if name == "jf":
                kw["crit"][i], kw["forever"][i] = val
            elif name == "pure":
                pure = val
            elif name == "ucancel":
                ucancel = val
            elif name == "preshut":
                preshut = val
            elif name == "xshut":
                xshut = val
            elif name == "selfc":
                selfc = val
            elif name == "cwait":
                if val:
                    for s in scheds:
                        entry = [j for j in jobs if parent[j] == s + 1 and not req[j]]
                        if len(entry) >= 2:
                            cwait[entry[0]] = entry[1] + 1
                            if val == "mutual":
                                cwait[entry[1]] = entry[0] + 1
            else:
                kw[name][i] = val
        for i in range(n):
            for key, dflt in (("crit", False), ("forever", False), ("sdur", 0),
                              ("cdur", 0), ("scdur", 0), ("cout", "cancelled"), ("dur", 0), ("win", 0), ("tmo", -1),
                              ("stmo", 1)):
                if kw[key][i] is None:
                    kw[key][i] = dflt
        out = ["any" if kind[i] == "job" else "ok" for i in range(n)]
        if selfc:
            required = {r for rq in req for r in rq}
            free = [i for i in jobs if (i + 1) not in required]
            if free:
                out[free[0]] = "selfc"
        return mkcfg(kind, parent, req, out=out, pure=pure, horizon=horizon, ucancel=ucancel,
                     preshut=preshut, xshut=xshut, cwait=cwait, **kw)

    if total <= cap:
        for choice in itertools.product(*axes):
            yield build(choice)
    else:
        seen = set()
        for _ in range(cap):
            choice = tuple(rng.randrange(len(ax)) for ax in axes)
            if choice in seen:
                continue
            seen.add(choice)
            yield build([ax[c] for ax, c in zip(axes, choice)])


def family(name, tier, seed):
    """-> (list of configurations, exhaustive?, description)"""
    rng = random.Random("%s-%s-%d" % (name, tier, seed))
    quick = tier == "quick"
    out = []
    exhaustive = True
    cap_total = 160 if quick else 2500

    def add(shapes, per_shape, horizon, opts):
        nonlocal exhaustive
        for shape in shapes:
            before = len(out)
            out.extend(_grid(shape, rng, per_shape, horizon, opts))
            # product larger than the cap -> sampled
            # (detected by comparing with the full size is costly; mark below)
        return

    def flat_shapes(kmax):
        return [flat(reqs) for k in range(1, kmax + 1) for reqs in all_dags(k)]

    if name == "flat":
        # requirement-driven start, windows, forever jobs, one level
        add(flat_shapes(3 if quick else 4), 60 if quick else 400, 3,
            dict(win=[0, 1, 2], tmo=[-1, 2], cdur=[0, 1], stmo=[1],
                 jobflags=[(False, False), (True, False), (False, True)],
                 pure=[False, True]))
        add([flat([[], [], [2, 3]]), flat([[], [2], [2], [3, 4]])], 200 if quick else 2000, 3,
            dict(win=[0, 1, 2, 3], tmo=[-1, 0, 1, 2], cdur=[0, 1], selfc=[False, False, True],
                 jobflags=[(False, False), (True, False), (False, True), (True, True)]))
        desc = "all DAGs on <=%d jobs under one scheduler x flags x windows x timeouts" % (3 if quick else 4)
    elif name == "nested":
        shapes = [tree(t) for t in [
            S([J(), S([J(), J(0)], 0), J(1)]),
            S([S([J(), J()]), J()]),
            S([J(), S([J()]), J(0, 1)]),
            S([S([J()]), S([J()], 0)]),
            S([S([S([J()]), J()])]),
            S([J(), S([]), J(1)]),
        ]]
        add(shapes, 250 if quick else 6000, 3,
            dict(win=[0, 1], tmo=[-1, 1, 2], cdur=[0, 1], sdur=[0, 1, 2],
                 stmo=[0, 1, -1],
                 jobflags=[(False, False), (True, False), (False, True)],
                 schedflags=[(False, False), (True, False), (False, True), (True, True)],
                 pure=[False, True], ucancel=[-1, -1, 1, 2], preshut=[False, False, False, True],
                 xshut=[False, True], cout=["cancelled", "cancelled", "exc"], selfc=[False, False, True],
                 cwait=[None, None, "pair"]))
        desc = "6 nested shapes (depth <= 3) x flags x windows x timeouts x handler/clean-up durations"
    elif name == "shutdown":
        shapes = [tree(t) for t in [
            S([J(), S([J(), J()], 0)]),
            S([S([J(), S([J()])]), J()]),
            S([J(), J(0), S([J()], 1)]),
        ]]
        add(shapes, 500 if quick else 12000, 2,
            dict(win=[0], tmo=[-1, 1], cdur=[0, 1], sdur=[0, 1, 2, -1], scdur=[0, 1],
                 stmo=[0, 1, 2, -1],
                 jobflags=[(False, False), (True, False)],
                 schedflags=[(False, False), (True, False), (False, True)], ucancel=[-1, -1, -1, 1, 2],
                 preshut=[False, False, False, True], xshut=[False, True]))
        desc = "3 nested shapes x every handler duration against every shutdown_timeout in the tree"
    elif name == "never":
        # never-ending jobs (dur = -1) under timeouts / as forever jobs
        shapes = [flat([[], []]), flat([[], [2]]), tree(S([J(), S([J(), J()])])),
                  tree(S([S([J()]), J()]))]
        add(shapes, 400 if quick else 8000, 3,
            dict(win=[0, 1, 2], tmo=[-1, 0, 1, 2], cdur=[0, 1], dur=[-2, -1],
                 jobflags=[(False, False), (True, False), (False, True)],
                 schedflags=[(False, False), (True, False), (False, True)],
                 cwait=[None, None, "pair", "mutual"]))
        desc = "shapes with never-ending jobs x timeouts x windows (admissible and not)"
    else:
        raise KeyError(name)
    if name == "shutdown" and not quick:
        cap_total = 800          # the richest state spaces per configuration
    if name == "flat" and not quick:
        cap_total = 700          # four free jobs x horizon 3: about 10^5 states per configuration
    if len(out) > cap_total:
        rng.shuffle(out)
        out = out[:cap_total]
        exhaustive = False
    return out, exhaustive, desc


if __name__ == "__main__":
    import json
    import sys
    fam, exh, desc = family(sys.argv[1], sys.argv[2], int(sys.argv[3]))
    json.dump(fam, open(sys.argv[4], "w"))
    print(len(fam), exh, desc)
