"""
Executes graph histories against the real asynciojobs classes and records,
for every step, the outcome (return value / exception), the full projected
state (members of every scheduler, requirements of every object) and the
values of the query API on that state.

Usage: graphdrv.py <histories.json> <out.json>

A history: {"hid", "U": {"n", "kind", "forever"}, "hash": [...],
            "init": {"mem": [[..]], "req": [[..]]},
            "steps": [{"op", "s", "x", "A", "B", "f1", "f2", "qs", "qA"}]}
Objects are 1..n; kind "job" | "sched" (nestable Scheduler) | "pure".
"""

import contextlib
import io
import json
import os
import signal
import random
import sys
import warnings

REPO = os.environ.get("VERIF_REPO", "/repo")
sys.path.insert(0, REPO)
warnings.simplefilter("ignore")

import asynciojobs                                      # noqa: E402
from asynciojobs import AbstractJob, Scheduler, PureScheduler  # noqa: E402

assert os.path.realpath(asynciojobs.__file__).startswith(os.path.realpath(REPO))


class World:
    def __init__(self, hist):
        self.h = hist
        uni = hist["U"]
        self.n = uni["n"]
        hashes = hist.get("hash") or list(range(1, self.n + 1))

        class Hashed:
            def __hash__(self):
                return self._vhash

            def __eq__(self, other):
                return self is other

        class GJob(Hashed, AbstractJob):
            pass

        class GSched(Hashed, Scheduler):
            pass

        class GPure(PureScheduler):
            pass

        self.obj = {}
        self.ident = {}
        self.dead = False       # a call into the library has hung: nothing more is asked of it
        for i in range(1, self.n + 1):
            kind = uni["kind"][i - 1]
            if kind == "job":
                o = GJob.__new__(GJob)
                o._vhash = hashes[i - 1]
                AbstractJob.__init__(o, forever=uni["forever"][i - 1], label="o%d" % i)
            elif kind == "sched":
                o = GSched.__new__(GSched)
                o._vhash = hashes[i - 1]
                Scheduler.__init__(o, forever=uni["forever"][i - 1], label="o%d" % i)
            else:
                o = GPure()
            self.obj[i] = o
            self.ident[id(o)] = i
        for i in range(1, self.n + 1):
            mem = hist["init"]["mem"][i - 1]
            if mem:
                self.obj[i].update([self.obj[m] for m in mem])
        shared = {}
        for i in range(1, self.n + 1):
            reqs = hist["init"]["req"][i - 1]
            if hist.get("sharedset") and reqs and isinstance(self.obj[i], AbstractJob):
                # the caller hands the very same set object to every job with these requirements
                key = tuple(reqs)
                if key not in shared:
                    shared[key] = {self.obj[r] for r in reqs}
                self.obj[i].requires(shared[key])
            else:
                for r in reqs:
                    self.obj[i].requires(self.obj[r])

    def idof(self, o):
        return self.ident.get(id(o), 0)

    def ids(self, coll):
        return [self.idof(o) for o in coll]

    def project(self):
        mem, req = [], []
        for i in range(1, self.n + 1):
            o = self.obj[i]
            mem.append(sorted(self.ids(o.jobs)) if isinstance(o, PureScheduler) else [])
            req.append(sorted(self.ids(o.required)) if isinstance(o, AbstractJob) else [])
        return {"mem": mem, "req": req}

    def objs(self, ids):
        return [self.obj[i] for i in ids]

    def queries(self, qs, qa):
        s = self.obj[qs]
        out = {}
        if self.dead:
            out.update(cc=False, ccexc="WallClock", topo=[], topoexc="WallClock")
        else:
            try:
                out["cc"] = bool(s.check_cycles())
                out["ccexc"] = "none"
            except BaseException as exc:                # pylint: disable=W0703
                out["cc"] = False
                out["ccexc"] = type(exc).__name__
                self.dead = self.dead or isinstance(exc, WallClock)
        if not self.dead:
            try:
                out["topo"] = self.ids(list(s.topological_order()))
                out["topoexc"] = "none"
            except BaseException as exc:                # pylint: disable=W0703
                out["topo"] = []
                out["topoexc"] = type(exc).__name__
                self.dead = self.dead or isinstance(exc, WallClock)
        else:
            out.setdefault("topo", [])
            out.setdefault("topoexc", "WallClock")
        starts = self.objs(qa)

        def guarded(key, fun):
            """a query that raises is recorded as the (impossible) answer [-1]"""
            if self.dead:
                out[key] = [-1]
                return
            try:
                out[key] = self.ids(list(fun()))
            except BaseException as exc:                # pylint: disable=W0703
                out[key] = [-1]
                out.setdefault("qexc", type(exc).__name__)
                if isinstance(exc, WallClock):
                    self.dead = True
        guarded("entry", s.entry_jobs)
        guarded("exit_t", s.exit_jobs)
        guarded("exit_f", lambda: s.exit_jobs(discard_forever=False))
        guarded("pred", lambda: s.predecessors(*starts))
        guarded("succ", lambda: s.successors(*starts))
        guarded("up", lambda: s.predecessors_upstream(*starts))
        guarded("down", lambda: s.successors_downstream(*starts))
        guarded("iter_f", s.iterate_jobs)
        guarded("iter_t", lambda: s.iterate_jobs(scan_schedulers=True))

        def lazily():
            """iterate_jobs() consumed step by step while other scans run on the same tree"""
            seen = []
            gen = s.iterate_jobs(scan_schedulers=True)
            for item in gen:
                seen.append(item)
                s.check_cycles()
                for other in s.iterate_jobs():
                    break
            return seen
        guarded("iter_x", lazily)

        def topo_lazily():
            """topological_order() consumed step by step while the query API is used"""
            seen = []
            for item in s.topological_order():
                seen.append(item)
                s.predecessors_upstream(item)
                s.successors_downstream(item)
                list(s.exit_jobs())
            return seen
        if self.dead:
            out["topo_x"], out["topo_xexc"] = [], "WallClock"
        else:
            try:
                out["topo_x"] = self.ids(topo_lazily())
                out["topo_xexc"] = "none"
            except BaseException as exc:                # pylint: disable=W0703
                out["topo_x"] = []
                out["topo_xexc"] = type(exc).__name__
                self.dead = self.dead or isinstance(exc, WallClock)
        out.setdefault("qexc", "none")
        try:
            out["len"] = len(s)
        except BaseException:                           # pylint: disable=W0703
            out["len"] = -1
        return out

    # -- resolution of "auto" steps against the current real state (the
    #    generator is model-free: it cannot know the members at this point)
    def owner(self, i):
        for sid in range(1, self.n + 1):
            o = self.obj[sid]
            if isinstance(o, PureScheduler) and self.obj[i] in o.jobs:
                return sid
        return 0

    def ancestors(self, sid):
        out = set()
        cur = sid
        while cur and cur not in out:
            out.add(cur)
            cur = self.owner(cur)
        return out

    def resolve(self, st, rng):
        scheds = [i for i in range(1, self.n + 1) if isinstance(self.obj[i], PureScheduler)]
        live = [i for i in scheds if i == 1 or self.owner(i)] or scheds
        s = st.get("s") or rng.choice(live)
        st["s"] = s
        mem = sorted(self.ids(self.obj[s].jobs))
        everyone = list(range(1, self.n + 1))
        jobsy = [i for i in everyone if isinstance(self.obj[i], AbstractJob)]
        op = st["op"]

        def subset(pool, kmax):
            pool = list(pool)
            k = rng.randint(0, min(kmax, len(pool)))
            return sorted(rng.sample(pool, k))
        if op == "bypass":
            if mem and rng.random() < 0.9:
                st["x"] = rng.choice(mem)
            else:
                st["x"] = rng.choice(jobsy)
        elif op == "keep_only":
            st["A"] = subset(jobsy, len(jobsy))
            st["f1"] = rng.random() < 0.5
        elif op == "keep_between":
            st["A"] = subset(mem, 3)
            st["B"] = subset(mem, 3)
            st["f1"] = rng.random() < 0.5
            st["f2"] = rng.random() < 0.5
            st["f3"] = rng.random() < 0.5
        elif op == "requires":
            x = rng.choice(mem) if mem and rng.random() < 0.8 else rng.choice(jobsy)
            st["x"] = x
            st["f1"] = rng.random() < 0.35
            st["f2"] = rng.random() < 0.3
            cur = sorted(self.ids(self.obj[x].required))
            if st["f1"]:
                st["A"] = subset(cur, 2) if (cur and rng.random() < 0.8) else subset(jobsy, 1)
            else:
                pool = [m for m in mem if m > x] if rng.random() < 0.7 else \
                    (mem if rng.random() < 0.7 else jobsy)
                st["A"] = subset(pool, 3)
        elif op in ("add", "update"):
            free = [i for i in jobsy if not self.owner(i) and i not in self.ancestors(s)
                    and i != s]
            if not free:
                st["op"] = "query"
            elif op == "add":
                st["x"] = rng.choice(free)
            else:
                st["A"] = subset(free, 3)
        elif op == "remove":
            st["x"] = rng.choice(mem) if mem and rng.random() < 0.85 else rng.choice(jobsy)
        elif op == "sanitize":
            st["f1"] = rng.random() < 0.4
        if st.get("qs") == "auto":
            st["qs"] = rng.choice(live)
        if st.get("qA") == "auto":
            qmem = sorted(self.ids(self.obj[st["qs"]].jobs)) if st.get("qs") else []
            st["qA"] = sorted(rng.sample(qmem, rng.randint(1, min(3, len(qmem))))) if qmem else []
        return st

    def apply(self, st):
        op = st["op"]
        s = self.obj.get(st.get("s", 0))
        x = self.obj.get(st.get("x", 0))
        a_objs = self.objs(st.get("A", []))
        b_objs = self.objs(st.get("B", []))
        ret = "none"
        exc = "none"
        if self.dead:
            return ret, "WallClock"
        try:
            if op == "requires":
                # f2: the requirements are given in one collection (list, tuple in a list, set)
                if st.get("f2") and a_objs:
                    form = len(a_objs) % 3
                    coll = list(a_objs) if form == 0 else [tuple(a_objs)] if form == 1 else set(a_objs)
                    got = x.requires(coll, remove=st["f1"])
                else:
                    got = x.requires(*a_objs, remove=st["f1"])
                ret = "self" if got is x else "other"
            elif op == "add":
                got = s.add(x)
                ret = "arg" if got is x else "other"
            elif op == "update":
                got = s.update(a_objs)
                ret = "self" if got is s else "other"
            elif op == "remove":
                got = s.remove(x)
                ret = "self" if got is s else "other"
            elif op == "sanitize":
                got = s.sanitize(verbose=True) if st.get("f1") else s.sanitize()
                ret = "true" if got is True else "false" if got is False else "other"
            elif op == "bypass":
                s.bypass_and_remove(x)
            elif op == "keep_only":
                s.keep_only(a_objs if st.get("f1") else iter(a_objs))
            elif op == "keep_between":
                kwds = {}
                # f3: the milestones are given explicitly also when empty, and as one-shot
                # iterables (any Iterable will do)
                if a_objs or st.get("f3"):
                    kwds["starts"] = iter(a_objs) if st.get("f3") else a_objs
                if b_objs or st.get("f3"):
                    kwds["ends"] = (x for x in b_objs) if st.get("f3") else b_objs
                s.keep_only_between(keep_starts=st["f1"], keep_ends=st["f2"], **kwds)
            elif op == "query":
                pass
            elif op == "scan":
                # one scan of the graph and nothing else (scans leave marks on the jobs)
                s.check_cycles()
            elif op == "display":
                # calls that only show the scheduler: they must leave the graph, and what the
                # queries answer afterwards, alone
                for show in (s.list, s.list_safe, s.dot_format, s.stats, lambda: repr(s),
                             s.repr_entries if hasattr(s, "repr_entries") else s.stats,
                             s.repr_exits if hasattr(s, "repr_exits") else s.stats):
                    try:
                        show()
                    except WallClock:
                        raise
                    except Exception:                   # pylint: disable=W0703
                        pass     # cyclic graphs cannot be listed; known finding K1 for dot_format()
            else:
                exc = "unknown-op"
        except BaseException as err:                    # pylint: disable=W0703
            exc = type(err).__name__
            if isinstance(err, WallClock):
                self.dead = True
        return ret, exc


class WallClock(BaseException):
    """a call into the library is taking real time (it loops, or waits for something)"""


def _alarm(_signum, _frame):
    raise WallClock()


HANGS = [0]


def run_history(item):
    # once two histories have hung (their verdict is settled: a hang is a rejection), the
    # remaining ones get a short leash so that a looping library does not cost minutes
    limit = 15 if HANGS[0] < 2 else 3
    signal.signal(signal.SIGALRM, _alarm)
    signal.setitimer(signal.ITIMER_REAL, limit, limit)
    try:
        out = _run_history(item)
    finally:
        signal.setitimer(signal.ITIMER_REAL, 0)
    if '"WallClock"' in json.dumps(out):
        HANGS[0] += 1
    return out


def _run_history(hist):
    sink = io.StringIO()
    out_steps = []
    with contextlib.redirect_stdout(sink):
        world = World(hist)
        init = world.project()
        rng = random.Random(hist.get("seed", 0))
        for st in hist["steps"]:
            st = dict(st)
            if st.pop("auto", False):
                st = world.resolve(st, rng)
            for key, dflt in (("s", 0), ("x", 0), ("A", []), ("B", []), ("f1", False),
                              ("f2", False), ("f3", False), ("qs", 0), ("qA", [])):
                st.setdefault(key, dflt)
            ret, exc = world.apply(st)
            rec = dict(st)
            rec["ret"] = ret
            rec["exc"] = exc
            rec["post"] = world.project()
            if st.get("qs"):
                rec["q"] = world.queries(st["qs"], st.get("qA", []))
            out_steps.append(rec)
    return {"hid": hist["hid"], "U": hist["U"], "init": init, "steps": out_steps}


def main(argv):
    with open(argv[1]) as inp:
        hists = json.load(inp)
    out = [run_history(h) for h in hists]
    with open(argv[2], "w") as outp:
        json.dump(out, outp, separators=(",", ":"))


if __name__ == "__main__":
    main(sys.argv)
