"""
Scripted scenario families for real runs (trace validation), one per runtime
property: a common seeded-random core plus scenarios aimed at the situations
the property talks about (DESIGN.md section 7).
"""

import itertools
import random

from scenario import (mkcfg, flat, all_dags, tree, J, S, random_scenario,
                      random_admissible, admissible, jobs_of, scheds_of,
                      kids_of, random_tree)

PROFILES = {
    # joins whose requirements have different durations, zero durations
    "C01": dict(p_flat=0.6, max_flat=10, max_nodes=11, p_exc=0.25, max_dur=4,
                tmos=[-1] * 7 + [6], p_never=0.0, p_forever=0.05, p_crit=0.2),
    # simultaneous completions, forever jobs that end, small windows
    "C02": dict(p_flat=0.6, max_flat=8, max_dur=2, p_forever=0.3, p_exc=0.15,
                wins=[0, 0, 1, 2, 2, 3], tmos=[-1] * 6 + [3], p_never=0.03, p_crit=0.15),
    # windows x failing subsets, timeouts over never-ending jobs
    "C03": dict(p_flat=0.5, max_flat=8, max_dur=2, p_exc=0.45, p_crit=0.1,
                wins=[1, 1, 2, 2, 3, 0], tmos=[-1, -1, -1, 1, 2, 3], p_never=0.12,
                p_forever=0.2, sdurs=[0, 0, 0, 1, 2, -1], stmos=[1, 1, 1, 0, 2, -1]),
    # verdicts: criticality everywhere, timeouts including 0, ties
    "C04": dict(p_flat=0.3, max_dur=2, p_exc=0.35, p_crit=0.6, p_pure=0.3,
                tmos=[-1, -1, 0, 0, 1, 2, 2, 3], p_never=0.08, p_forever=0.15),
    # critical failures at every instant relative to the other completions
    "C05": dict(p_flat=0.4, max_dur=3, p_exc=0.35, p_crit=0.7, cdurs=[0, 0, 1, 2],
                wins=[0, 0, 1, 2, 3], tmos=[-1] * 5 + [4], p_never=0.05),
    "C06": dict(p_flat=0.4, max_dur=3, p_exc=0.0, p_crit=0.3,
                wins=[0, 1, 2, 3], tmos=[-1] * 4 + [3, 5], p_never=0.0, p_forever=0.1),
    # windows at every level, raising and cancelled jobs, zero durations
    "C07": dict(p_flat=0.5, max_flat=9, max_dur=2, p_exc=0.3, p_crit=0.3,
                wins=[1, 1, 2, 2, 3], tmos=[-1, -1, -1, 1, 2, 3], p_never=0.08,
                p_forever=0.15, cdurs=[0, 1, 2]),
    # deadlines between, on and after completions; T = 0; nested deadlines
    "C08": dict(p_flat=0.3, max_dur=3, p_exc=0.15, p_crit=0.35,
                tmos=[-1, 0, 1, 1, 2, 2, 3, 4], p_never=0.15, wins=[0, 0, 1, 2],
                cdurs=[0, 0, 1, 2]),
    # forever jobs: never ending or ending before / at / after the last one
    "C09": dict(p_flat=0.4, max_dur=3, p_forever=0.45, p_never=0.2, p_exc=0.15,
                p_crit=0.25, wins=[0, 0, 1, 2, 3], tmos=[-1] * 5 + [3, 5]),
    # deep trees, criticality chains, inner windows and timeouts
    "C10": dict(p_flat=0.0, max_nodes=11, max_dur=2, p_exc=0.3, p_crit=0.55,
                wins=[0, 0, 1, 2], tmos=[-1, -1, -1, 1, 2, 3], p_never=0.05),
    # every phase of a nested run x every way an ancestor ends
    "C11": dict(p_flat=0.0, max_nodes=11, max_dur=3, p_exc=0.3, p_crit=0.5,
                tmos=[-1, -1, 1, 2, 3], cdurs=[0, 1, 2, 3], sdurs=[0, 1, 2, 3],
                scdurs=[0, 0, 1, 2], stmos=[0, 1, 2, 3, -1], p_never=0.12, p_forever=0.25),
    # ties among requirements, hash permutations, windows
    "C12": dict(p_flat=0.6, max_flat=9, max_dur=2, p_exc=0.15, p_crit=0.1,
                wins=[0, 0, 1, 2, 3], tmos=[-1], p_never=0.0, p_forever=0.15),
    # three exit paths at every level, every handler against every timeout
    "C13": dict(p_flat=0.1, max_nodes=10, max_dur=2, p_exc=0.3, p_crit=0.5,
                tmos=[-1, -1, 1, 2], sdurs=[0, 1, 2, 3, 4], stmos=[0, 1, 2, 3, -1],
                scdurs=[0, 0, 1, 2], cdurs=[0, 1], p_never=0.08, p_forever=0.2),
    # predicates: both flavours, windows so that `queued` is observed
    "C14": dict(p_flat=0.4, max_dur=3, p_exc=0.3, p_crit=0.3,
                wins=[0, 1, 1, 2, 3], tmos=[-1, -1, 2, 4], p_never=0.05, p_forever=0.15),
}


def _harness(rng, n, k=None):
    perm = list(range(1, n + 1))
    rng.shuffle(perm)
    return {"k": k or [rng.choice([0, 0, 1, 2]) for _ in range(n)], "hash": perm,
            "flavour": [rng.choice(["abs", "job"]) for _ in range(n)],
            "verbose": rng.random() < 0.1}


def _mk(rng, shape, **kw):
    kind, parent, req = shape
    cfg = mkcfg(kind, parent, req, **kw)
    return {"cfg": cfg, "harness": _harness(rng, cfg["n"])}


# ------------------------------------------------------------ structured
def joins(rng, count):
    """C01/C12: a join whose requirements finish at different times"""
    out = []
    for _ in range(count):
        fan = rng.randint(2, 4)
        pre = rng.randint(0, 2)
        reqs = [[] for _ in range(pre)]
        arms = []
        for _ in range(fan):
            reqs.append([rng.randrange(2, 2 + pre)] if pre and rng.random() < 0.5 else [])
            arms.append(len(reqs) + 1)
        reqs.append(arms)
        for _ in range(rng.randint(0, 2)):
            reqs.append([len(reqs) + 1 - rng.randint(0, 1)])
        n = len(reqs) + 1
        dur = [0] + [rng.choice([0, 1, 2, 3, 4]) for _ in range(n - 1)]
        outc = ["ok"] + [rng.choice(["ok", "ok", "exc"]) for _ in range(n - 1)]
        out.append(_mk(rng, flat(reqs), dur=dur, out=outc,
                       win=[rng.choice([0, 0, 0, 2, 3])] + [0] * (n - 1)))
    return out


def small_perms(rng, count):
    """C12/C01: all hash permutations of a small diamond-like shape"""
    out = []
    shapes = [flat([[], [2], [2], [3, 4]]), flat([[], [], [2, 3], [2, 3]]),
              flat([[], [2], [2, 3], [3]])]
    while len(out) < count:
        shape = rng.choice(shapes)
        n = len(shape[0])
        dur = [0] + [rng.choice([0, 1, 1, 2]) for _ in range(n - 1)]
        win = [rng.choice([0, 0, 1, 2])] + [0] * (n - 1)
        perms = list(itertools.permutations(range(1, n + 1)))
        rng.shuffle(perms)
        for perm in perms[:min(24, count - len(out))]:
            sc = _mk(rng, shape, dur=dur, win=win)
            sc["harness"]["hash"] = list(perm)
            out.append(sc)
    return out


def tie_groups(rng, count):
    """C02/C12: groups of jobs ending in the same instant, different offsets"""
    out = []
    for _ in range(count):
        k = rng.randint(2, 6)
        reqs = [[] for _ in range(k)]
        tail = rng.randint(0, 3)
        for _ in range(tail):
            reqs.append(sorted(rng.sample(range(2, 2 + k), rng.randint(1, min(3, k)))))
        n = len(reqs) + 1
        base = rng.choice([0, 1, 2])
        dur = [0] + [base] * k + [rng.choice([0, 1]) for _ in range(tail)]
        forever = [False] + [rng.random() < 0.25 for _ in range(n - 1)]
        if all(forever[1:1 + k]):
            forever[1] = False
        sc = _mk(rng, flat(reqs), dur=dur, forever=forever,
                 win=[rng.choice([0, 0, 1, 2, k - 1 or 1])] + [0] * (n - 1),
                 out=["ok"] + [rng.choice(["ok", "ok", "ok", "exc"]) for _ in range(n - 1)])
        sc["harness"]["k"] = [rng.choice([0, 1, 2, 3]) for _ in range(n)]
        if admissible(sc["cfg"]):
            out.append(sc)
    return out


def window_failures(rng, count):
    """C03/C06/C07: window x failing subset x what remains to run"""
    out = []
    for _ in range(count):
        k = rng.randint(2, 7)
        reqs = [[i + 2 for i in range(j) if rng.random() < 0.3] for j in range(k)]
        n = k + 1
        outc = ["ok"] + [rng.choice(["ok", "exc"]) for _ in range(k)]
        sc = _mk(rng, flat(reqs), dur=[0] + [rng.choice([0, 1, 2]) for _ in range(k)],
                 out=outc, crit=[rng.random() < 0.3] + [False] * k,
                 win=[rng.choice([1, 1, 2, 3])] + [0] * k,
                 pure=rng.random() < 0.3)
        out.append(sc)
    return out


def critical_instants(rng, count):
    """C05/C04: one critical job fails before / with / after the others"""
    out = []
    for _ in range(count):
        nested = rng.random() < 0.5
        k = rng.randint(2, 5)
        reqs = [[i + 2 for i in range(j) if rng.random() < 0.25] for j in range(k)]
        if nested:
            inner = [J(*[r - 2 for r in rq]) for rq in reqs]
            t = S([J(), S(inner, *([0] if rng.random() < 0.5 else [])), J()])
            shape = tree(t)
        else:
            shape = flat(reqs)
        kind = shape[0]
        n = len(kind)
        jobs = [i for i in range(n) if kind[i] == "job"]
        tfail = rng.choice([0, 1, 2])
        dur = [0] * n
        outc = ["ok"] * n
        crit = [False] * n
        for i in jobs:
            dur[i] = rng.choice([tfail, tfail, max(0, tfail - 1), tfail + 1, tfail + 2])
        bad = rng.choice(jobs)
        dur[bad], outc[bad], crit[bad] = tfail, "exc", True
        for i in range(n):
            if kind[i] == "sched":
                crit[i] = rng.random() < 0.5
        if rng.random() < 0.3:
            other = rng.choice(jobs)
            outc[other] = "exc"
            crit[other] = rng.random() < 0.5
        win = [rng.choice([0, 0, 1, 2]) if kind[i] == "sched" else 0 for i in range(n)]
        cdur = [rng.choice([0, 0, 1, 2]) for _ in range(n)]
        sc = _mk(rng, shape, dur=dur, out=outc, crit=crit, win=win, cdur=cdur,
                 pure=rng.random() < 0.2)
        sc["harness"]["k"] = [rng.choice([0, 0, 1, 2, 3, 4]) for _ in range(n)]
        if nested and rng.random() < 0.4:
            sc["harness"]["verbose"] = "keep"
        out.append(sc)
    return out


def deadlines(rng, count):
    """C08/C04: T strictly between, on and after completions; T = 0; nested"""
    out = []
    while len(out) < count:
        t = random_tree(rng, max_nodes=8)
        kind, parent, req = tree(t)
        n = len(kind)
        if n < 2:
            continue
        dur = [rng.choice([0, 1, 2, 3]) if kind[i] == "job" else 0 for i in range(n)]
        for i in range(n):
            if kind[i] == "job" and rng.random() < 0.12:
                dur[i] = -1
        tmo = [rng.choice([-1, 0, 1, 2, 3, 4]) if kind[i] == "sched" else -1 for i in range(n)]
        if all(x < 0 for x in tmo):
            tmo[0] = rng.choice([0, 1, 2, 3])
        sc = _mk(rng, (kind, parent, req), dur=dur, tmo=tmo,
                 crit=[rng.random() < 0.4 for _ in range(n)],
                 forever=[False] + [rng.random() < 0.1 for _ in range(n - 1)],
                 win=[rng.choice([0, 0, 1, 2]) if kind[i] == "sched" else 0 for i in range(n)],
                 cdur=[rng.choice([0, 0, 1]) for _ in range(n)],
                 out=[rng.choice(["ok", "ok", "ok", "exc"]) if kind[i] == "job" else "ok" for i in range(n)],
                 pure=rng.random() < 0.2)
        if admissible(sc["cfg"]):
            out.append(sc)
    return out


def forevers(rng, count):
    """C09: 0-3 forever jobs, never ending or ending around the last regular job"""
    out = []
    while len(out) < count:
        nested = rng.random() < 0.4
        k = rng.randint(1, 4)
        f = rng.randint(0, 3)
        reqs = [[i + 2 for i in range(j) if rng.random() < 0.3] for j in range(k + f)]
        shape = flat(reqs)
        if nested:
            inner = [J(*[r - 2 for r in rq]) for rq in reqs]
            shape = tree(S([J(), S(inner, 0), J(1)]))
        kind = shape[0]
        n = len(kind)
        jobs = [i for i in range(n) if kind[i] == "job"]
        last = rng.choice([1, 2, 3])
        dur = [0] * n
        forever = [False] * n
        fset = set(rng.sample(jobs, min(f, len(jobs) - 1)))
        for i in jobs:
            if i in fset:
                forever[i] = True
                dur[i] = rng.choice([-1, -1, 0, last - 1, last, last + 1, last + 2])
                dur[i] = max(dur[i], -1)
            else:
                dur[i] = rng.choice([0, 1, last])
        if nested and rng.random() < 0.3:
            forever[[i for i in range(n) if kind[i] == "sched"][1]] = True
        sc = _mk(rng, shape, dur=dur, forever=forever,
                 win=[rng.choice([0, 0, 1, 2, 3]) if kind[i] == "sched" else 0 for i in range(n)],
                 tmo=[rng.choice([-1, -1, -1, 4]) if kind[i] == "sched" else -1 for i in range(n)],
                 out=[rng.choice(["ok", "ok", "ok", "exc"]) if kind[i] == "job" else "ok" for i in range(n)],
                 crit=[rng.random() < 0.2 for _ in range(n)],
                 cdur=[rng.choice([0, 0, 1]) for _ in range(n)])
        if admissible(sc["cfg"]):
            out.append(sc)
    return out


def crit_chains(rng, count):
    """C04/C10: every combination of critical flags along nested chains"""
    out = []
    shapes = [tree(S([S([S([J(), J()])])])), tree(S([J(), S([J(), S([J()], 0)], 0), J(1)])),
              tree(S([S([J()]), S([S([J()])])]))]
    while len(out) < count:
        shape = rng.choice(shapes)
        kind = shape[0]
        n = len(kind)
        jobs = [i for i in range(n) if kind[i] == "job"]
        crit = [rng.random() < 0.5 for _ in range(n)]
        outc = ["ok"] * n
        for i in jobs:
            if rng.random() < 0.5:
                outc[i] = "exc"
        sc = _mk(rng, shape, crit=crit, out=outc,
                 dur=[rng.choice([0, 1, 1, 2]) if i in jobs else 0 for i in range(n)],
                 tmo=[rng.choice([-1, -1, -1, 0, 1, 2]) if kind[i] == "sched" else -1 for i in range(n)],
                 # critical and forever at once, on jobs and on nested schedulers
                 forever=[False] + [rng.random() < 0.25 for _ in range(n - 1)],
                 pure=rng.random() < 0.3)
        if admissible(sc["cfg"]):
            out.append(sc)
    return out


def shutdown_grid(rng, count):
    """C13/C11: handler durations against every shutdown_timeout in the tree,
    nested runs never started / in flight / finished when an ancestor ends"""
    out = []
    shapes = [tree(S([J(), S([J(), J()], 0)])), tree(S([J(), S([J(), S([J()])])])),
              tree(S([J(), J(0), S([J(), J(0)], 1)])), tree(S([S([J()]), S([J()]), J()])),
              flat([[], [2], []])]
    while len(out) < count:
        shape = rng.choice(shapes)
        kind = shape[0]
        n = len(kind)
        jobs = [i for i in range(n) if kind[i] == "job"]
        mode = rng.choice(["success", "critical", "timeout", "mixed"])
        dur = [rng.choice([0, 1, 2, 3]) if i in jobs else 0 for i in range(n)]
        outc = ["ok"] * n
        crit = [rng.random() < 0.4 for _ in range(n)]
        tmo = [-1] * n
        if mode in ("critical", "mixed"):
            bad = rng.choice(jobs)
            outc[bad], crit[bad] = "exc", True
        if mode in ("timeout", "mixed"):
            s = rng.choice([i for i in range(n) if kind[i] == "sched"])
            tmo[s] = rng.choice([0, 1, 2])
        sc = _mk(rng, shape, dur=dur, out=outc, crit=crit, tmo=tmo,
                 sdur=[rng.choice([0, 1, 2, 3, 4]) if i in jobs else 0 for i in range(n)],
                 stmo=[rng.choice([0, 1, 2, 3, -1]) if kind[i] == "sched" else 1 for i in range(n)],
                 cdur=[rng.choice([0, 0, 1, 2]) for _ in range(n)],
                 scdur=[rng.choice([0, 0, 1, 2]) if i in jobs else 0 for i in range(n)],
                 forever=[False] + [rng.random() < 0.15 for _ in range(n - 1)],
                 pure=rng.random() < 0.2)
        if admissible(sc["cfg"]):
            out.append(sc)
    return out


def nested_abort_ties(rng, count):
    """C05/C08/C11: the parent aborts (critical failure or timeout) in the very instant
    a job of a nested scheduler completes, a few loop iterations before or after"""
    out = []
    while len(out) < count:
        t = rng.choice([1, 2])
        deep = rng.random() < 0.3
        inner = S([J(), J(), J(0)] if rng.random() < 0.5 else [J(), J()])
        nested = S([inner, J()]) if deep else inner
        by_timeout = rng.random() < 0.35
        shape = tree(S([J(), nested, J(0)]))
        kind, parent, _ = shape
        n = len(kind)
        scheds = [i for i in range(n) if kind[i] == "sched"]
        innermost = scheds[-1]
        mem = [i for i in range(n) if parent[i] == innermost + 1]
        dur, outc, crit, tmo = [0] * n, ["ok"] * n, [False] * n, [-1] * n
        for i in range(n):
            if kind[i] == "job":
                dur[i] = rng.choice([t + 1, t + 2, t + 3])
        dur[mem[0]] = t                      # completes in the instant of the abort
        if len(mem) > 2:
            dur[mem[2]] = rng.choice([0, 1])
        first = [i for i in range(n) if kind[i] == "job" and parent[i] == 1][0]
        if by_timeout:
            tmo[0] = t
        else:
            dur[first], outc[first], crit[first] = t, "exc", True
        for i in scheds[1:]:
            crit[i] = rng.random() < 0.5
        sc = _mk(rng, shape, dur=dur, out=outc, crit=crit, tmo=tmo,
                 cdur=[rng.choice([0, 0, 1]) for _ in range(n)],
                 win=[rng.choice([0, 0, 0, 2]) if kind[i] == "sched" else 0 for i in range(n)],
                 pure=rng.random() < 0.2)
        sc["harness"]["k"] = [rng.choice([0, 1, 2, 3, 4, 5]) for _ in range(n)]
        if rng.random() < 0.6:
            sc["harness"]["verbose"] = "keep"
        out.append(sc)
    return out


def between_waits(rng, count):
    """C01/C05/C08/C11: a nested run is cancelled by its parent (critical failure or timeout)
    while it is between two waits of its main loop: a job of the nested scheduler with a
    successor completes in the instant of the abort, every offset of 0..5 loop iterations on
    both sides; a job of the grand-parent may be waiting behind the aborting scheduler"""
    out = []
    sweep = [(ka, kb) for ka in range(6) for kb in range(6)]
    rng.shuffle(sweep)
    idx = 0
    while len(out) < count:
        ka, kb = sweep[idx % len(sweep)]
        idx += 1
        t = rng.choice([1, 2])
        three = rng.random() < 0.5
        by_timeout = rng.random() < 0.3
        inner = S([J(), J(0)] + ([J(1)] if rng.random() < 0.3 else []), *([] if three else []))
        if three:
            # top > mid > inner: mid aborts, top carries on and has a job behind mid
            mid = S([J(), inner])
            shape = tree(S([mid, J(0)]))
        else:
            shape = tree(S([J(), inner]))
        kind, parent, _ = shape
        n = len(kind)
        scheds = [i for i in range(n) if kind[i] == "sched"]
        innermost = scheds[-1]
        aborting = parent[innermost] - 1
        mem = [i for i in range(n) if parent[i] == innermost + 1]
        bomb = [i for i in range(n) if kind[i] == "job" and parent[i] == aborting + 1][0]
        dur, outc, crit, tmo = [0] * n, ["ok"] * n, [False] * n, [-1] * n
        for i in range(n):
            if kind[i] == "job":
                dur[i] = rng.choice([t + 1, t + 2, t + 3])
        dur[mem[0]] = t
        if by_timeout:
            tmo[aborting] = t
        else:
            dur[bomb], outc[bomb], crit[bomb] = t, "exc", True
        sc = _mk(rng, shape, dur=dur, out=outc, crit=crit, tmo=tmo,
                 cdur=[rng.choice([0, 0, 1]) for _ in range(n)], pure=False)
        k = [0] * n
        k[mem[0]], k[bomb] = ka, kb
        sc["harness"]["k"] = k
        sc["harness"]["verbose"] = False
        out.append(sc)
    return out


def cancel_cliques(rng, count):
    """C03/C05/C08/C11: jobs whose clean-up, once cancelled, completes only when a sibling has
    been cancelled too (a lock the sibling holds until then): pairs of a `reporter` and its
    `keeper`, given up together at the end of a run (forever jobs), on a timeout, on a critical
    failure, or when their nested scheduler is cancelled"""
    out = []
    while len(out) < count:
        pairs = rng.randint(1, 3)
        how = rng.choice(["forever", "timeout", "critical", "nested"])
        t = rng.choice([1, 2])
        kids = []
        for _ in range(pairs):
            kids += [J(), J()]                     # keeper, reporter
        regular = [J(), J(2 * pairs)] if rng.random() < 0.5 else [J()]
        body = S(kids + regular)
        if how == "nested":
            shape = tree(S([J(), body]))
        else:
            shape = tree(body)
        kind, parent, _ = shape
        n = len(kind)
        holder = [i for i in range(n) if kind[i] == "sched"][-1]
        mem = [i for i in range(n) if parent[i] == holder + 1]
        dur, outc, crit, tmo = [0] * n, ["ok"] * n, [False] * n, [-1] * n
        forever, cwait = [False] * n, [0] * n
        for p in range(pairs):
            keeper, reporter = mem[2 * p], mem[2 * p + 1]
            dur[keeper] = rng.choice([-1, -1, t + 3])
            dur[reporter] = rng.choice([-1, t + 2, t + 3])
            cwait[reporter] = keeper + 1
            if rng.random() < 0.3:
                cwait[keeper] = reporter + 1          # they wait for each other
            if how == "forever" or dur[keeper] < 0 or dur[reporter] < 0:
                forever[keeper] = forever[reporter] = how != "timeout" or rng.random() < 0.5
        rest = mem[2 * pairs:]
        for i in rest:
            dur[i] = rng.choice([0, 1, t])
        if how == "timeout":
            tmo[holder] = t
            for i in rest[:1]:
                dur[i] = t + 2
        elif how == "critical":
            dur[rest[0]], outc[rest[0]], crit[rest[0]] = t, "exc", True
        elif how == "nested":
            first = [i for i in range(n) if kind[i] == "job" and parent[i] == 1][0]
            dur[first], outc[first], crit[first] = t, "exc", True
            for i in rest:
                dur[i] = t + 2
        if how != "timeout":
            for i in mem[:2 * pairs]:
                if dur[i] < 0:
                    forever[i] = True
        sc = _mk(rng, shape, dur=dur, out=outc, crit=crit, tmo=tmo, forever=forever, cwait=cwait,
                 cdur=[rng.choice([0, 0, 1]) for _ in range(n)])
        if admissible(sc["cfg"]):
            out.append(sc)
    return out


def empty_stages(rng, count):
    """C03/C09/C10: nested schedulers that hold no job when the run begins (an optional stage
    that ended up empty), with jobs behind them and forever jobs beside them"""
    out = []
    while len(out) < count:
        k = rng.randint(1, 3)
        kids = [J()]
        empties = []
        for _ in range(k):
            empties.append(len(kids))
            kids.append(S([], *( [rng.randrange(len(kids))] if rng.random() < 0.6 else [])))
            if rng.random() < 0.6:
                kids.append(J(len(kids) - 1))
        nf = rng.randint(0, 2)
        fidx = []
        for _ in range(nf):
            fidx.append(len(kids))
            kids.append(J())
        deep = rng.random() < 0.3
        shape = tree(S([S(kids), J(0)])) if deep else tree(S(kids))
        kind, parent, _ = shape
        n = len(kind)
        dur = [rng.choice([0, 1, 2]) if kind[i] == "job" else 0 for i in range(n)]
        forever = [False] * n
        holder = 2 if deep else 1
        mem = [i for i in range(n) if parent[i] == holder]
        for f in fidx:
            forever[mem[f]] = True
            dur[mem[f]] = rng.choice([-1, -1, 3])
        # an empty scheduler ends at once; give it a timeout now and then (either is admissible)
        tmo = [rng.choice([-1, 1, 2]) if kind[i] == "sched" and i > 0 else -1 for i in range(n)]
        sc = _mk(rng, shape, dur=dur, forever=forever, tmo=tmo,
                 crit=[rng.random() < 0.3 for _ in range(n)],
                 win=[rng.choice([0, 0, 0, 2]) if kind[i] == "sched" else 0 for i in range(n)])
        if admissible(sc["cfg"]):
            out.append(sc)
    return out


def sibling_windows(rng, count):
    """C10/C07: nested schedulers with the same window size whose runs begin in the same
    instant (both entry jobs, both behind the same job, or cousins): each window counts the
    jobs of its own scheduler only"""
    out = []
    while len(out) < count:
        w = rng.choice([1, 1, 2, 2, 3])
        how = rng.choice(["entry", "behind", "cousins", "three"])

        def stage():
            k = rng.randint(w, w + 2)
            return [J(*([rng.randrange(i)] if i and rng.random() < 0.25 else [])) for i in range(k)]
        if how == "entry":
            spec = S([S(stage()), S(stage())])
        elif how == "behind":
            spec = S([J(), S(stage(), 0), S(stage(), 0)])
        elif how == "cousins":
            spec = S([S([S(stage())]), S([S(stage()), J()])])
        else:
            spec = S([S(stage()), S(stage()), S(stage())])
        shape = tree(spec)
        kind, parent, _ = shape
        n = len(kind)
        leaves = [i for i in range(n) if kind[i] == "sched" and
                  all(kind[k] == "job" for k in range(n) if parent[k] == i + 1) and i > 0]
        win = [0] * n
        for i in leaves:
            win[i] = w
        if rng.random() < 0.2:
            win[0] = rng.choice([0, w, w + 1])
        dur = [rng.choice([1, 1, 2]) if kind[i] == "job" else 0 for i in range(n)]
        sc = _mk(rng, shape, dur=dur, win=win,
                 crit=[kind[i] == "sched" and rng.random() < 0.5 for i in range(n)],
                 out=[rng.choice(["ok"] * 5 + ["exc"]) if kind[i] == "job" else "ok" for i in range(n)])
        sc["harness"]["k"] = [0] * n if rng.random() < 0.6 else sc["harness"]["k"]
        out.append(sc)
    return out


def outside_hypothesis(rng, count):
    """C03: trees outside the hypothesis of the property (a never-ending regular job with
    no timeout above it, a handler that never returns under shutdown_timeout=None, a
    window filled by never-ending jobs): the real run may hang, and must hang exactly
    when the specification is stuck in the same way"""
    out = []
    prof = dict(p_flat=0.5, max_flat=5, max_nodes=7, max_dur=2, p_never=0.3, p_exc=0.2, p_crit=0.2,
                p_forever=0.2, tmos=[-1, -1, -1, 2], wins=[0, 0, 1, 2], stmos=[1, -1, -1],
                sdurs=[0, 0, 1, -1])
    tries = 0
    while len(out) < count and tries < 200 * count:
        tries += 1
        sc = random_scenario(rng, 0, prof)
        if not admissible(sc["cfg"]):
            out.append(sc)
    return out


def nested_failure_ties(rng, count):
    """C10/C05/C04: a critical nested scheduler fails (its critical job raises, or its own
    timeout fires) in the very instant a non-critical job of the parent raises, every offset
    of 0-7 loop iterations: the parent must abort whichever it looks at last"""
    out = []
    idx = 0
    while len(out) < count:
        kb = idx % 8
        idx += 1
        t = rng.choice([1, 2])
        by_timeout = rng.random() < 0.25
        deep = rng.random() < 0.3
        inner = S([J(), J()] if rng.random() < 0.5 else [J()])
        nested = S([inner]) if deep else inner
        kids = [nested, J(), J()]
        if rng.random() < 0.5:
            kids.append(J(0))
        shape = tree(S(kids))
        kind, parent, _ = shape
        n = len(kind)
        scheds = [i for i in range(n) if kind[i] == "sched"]
        innermost = scheds[-1]
        mem = [i for i in range(n) if parent[i] == innermost + 1]
        top_jobs = [i for i in range(n) if kind[i] == "job" and parent[i] == 1]
        dur = [rng.choice([t + 1, t + 2]) if kind[i] == "job" else 0 for i in range(n)]
        outc, crit, tmo = ["ok"] * n, [False] * n, [-1] * n
        for s in scheds[1:]:
            crit[s] = True
        if by_timeout:
            tmo[innermost] = t
        else:
            dur[mem[0]], outc[mem[0]], crit[mem[0]] = t, "exc", True
        # the non-critical failure of the parent, in the same instant
        dur[top_jobs[0]], outc[top_jobs[0]], crit[top_jobs[0]] = t, "exc", False
        sc = _mk(rng, shape, dur=dur, out=outc, crit=crit, tmo=tmo,
                 cdur=[rng.choice([0, 0, 1]) for _ in range(n)], pure=rng.random() < 0.2)
        k = [0] * n
        k[top_jobs[0]] = kb
        sc["harness"]["k"] = k
        out.append(sc)
    return out


def windowed_critical_abort(rng, count):
    """C04/C07/C05: a critical scheduler with a window; a critical job raises while other
    critical jobs are still queued for a slot: the exception that comes out is the culprit's"""
    out = []
    while len(out) < count:
        w = rng.choice([1, 1, 2, 3])
        k = w + rng.randint(1, 4)
        t = rng.choice([1, 2])
        nested = rng.random() < 0.5
        body = S([J() for _ in range(k)])
        shape = tree(S([J(), body, J(1)])) if nested else tree(body)
        kind, parent, _ = shape
        n = len(kind)
        holder = [i for i in range(n) if kind[i] == "sched"][-1]
        mem = [i for i in range(n) if parent[i] == holder + 1]
        dur = [rng.choice([t + 1, t + 2, t + 3]) if kind[i] == "job" else 0 for i in range(n)]
        outc, crit, win = ["ok"] * n, [False] * n, [0] * n
        for i in mem:
            crit[i] = rng.random() < 0.8
        bomb = rng.choice(mem)
        dur[bomb], outc[bomb], crit[bomb] = t, "exc", True
        win[holder] = w
        for s in range(n):
            if kind[s] == "sched":
                crit[s] = True
        sc = _mk(rng, shape, dur=dur, out=outc, crit=crit, win=win, pure=False,
                 cdur=[rng.choice([0, 0, 1]) for _ in range(n)])
        out.append(sc)
    return out


def late_shutdown_bounds(rng, count):
    """C03/C13: a nested scheduler without shutdown_timeout holds a handler that never returns;
    it never ends by itself (its parent aborts first, or it never starts), so it is shut down
    by its parent, within the parent's shutdown_timeout: the run ends although the tree is
    outside the letter of C03's hypothesis"""
    out = []
    while len(out) < count:
        t = rng.choice([1, 2])
        by_timeout = rng.random() < 0.4
        deep = rng.random() < 0.3
        inner = S([J(), J()] + ([J(0)] if rng.random() < 0.4 else []))
        nested = S([inner, J()]) if deep else inner
        behind = rng.random() < 0.3
        kids = [J(), S(nested[1], 0) if behind else nested, J()]
        shape = tree(S(kids))
        kind, parent, _ = shape
        n = len(kind)
        scheds = [i for i in range(n) if kind[i] == "sched"]
        innermost = scheds[-1]
        mem = [i for i in range(n) if parent[i] == innermost + 1]
        top_jobs = [i for i in range(n) if kind[i] == "job" and parent[i] == 1]
        dur = [rng.choice([0, 1, t + 2, t + 3]) if kind[i] == "job" else 0 for i in range(n)]
        dur[mem[-1]] = t + 3                        # the nested run is not over when the parent aborts
        outc, crit, tmo, stmo, sdur = ["ok"] * n, [False] * n, [-1] * n, [1] * n, [0] * n
        stmo[innermost] = -1
        stmo[0] = rng.choice([0, 1, 2])
        sdur[mem[0]] = -1
        for i in mem[1:]:
            sdur[i] = rng.choice([0, 1, 3])
        if by_timeout:
            tmo[0] = t
        else:
            dur[top_jobs[0]], outc[top_jobs[0]], crit[top_jobs[0]] = t, "exc", True
            if behind:
                dur[top_jobs[0]] = t + 1 if rng.random() < 0.5 else t
        sc = _mk(rng, shape, dur=dur, out=outc, crit=crit, tmo=tmo, stmo=stmo, sdur=sdur,
                 cdur=[rng.choice([0, 0, 1]) for _ in range(n)], pure=rng.random() < 0.3)
        out.append(sc)
    return out


def failed_nested_successors(rng, count):
    """C03/C10/C01: a non-critical nested scheduler fails (a critical job inside raises,
    or its own timeout fires) and jobs of the parent are waiting behind it"""
    out = []
    while len(out) < count:
        deep = rng.random() < 0.35
        inner = S([J(), J(0)] if rng.random() < 0.5 else [J(), J()])
        nested = S([inner, J()]) if deep else inner
        kids = [nested, J(0)]
        if rng.random() < 0.5:
            kids.append(J(1))
        if rng.random() < 0.4:
            kids.append(J())             # an independent (maybe forever) sibling
        shape = tree(S(kids))
        kind, parent, _ = shape
        n = len(kind)
        scheds = [i for i in range(n) if kind[i] == "sched"]
        innermost = scheds[-1]
        mem = [i for i in range(n) if parent[i] == innermost + 1]
        dur = [rng.choice([0, 1, 2]) if kind[i] == "job" else 0 for i in range(n)]
        outc, crit, tmo, forever = ["ok"] * n, [False] * n, [-1] * n, [False] * n
        how = rng.choice(["critical", "timeout", "both"])
        if how in ("critical", "both"):
            outc[mem[0]], crit[mem[0]] = "exc", True
        if how in ("timeout", "both"):
            tmo[innermost] = rng.choice([0, 1])
            dur[mem[-1]] = rng.choice([2, 3, -1])
        for i in scheds[1:]:
            crit[i] = False if i == innermost else rng.random() < 0.3
        if len(kids) == 4 or (len(kids) == 3 and kids[-1] == ("J", [])):
            last = [i for i in range(n) if parent[i] == 1][-1]
            if rng.random() < 0.5:
                forever[last], dur[last] = True, -1
        sc = _mk(rng, shape, dur=dur, out=outc, crit=crit, tmo=tmo, forever=forever,
                 win=[rng.choice([0, 0, 0, 2]) if kind[i] == "sched" else 0 for i in range(n)],
                 pure=rng.random() < 0.3)
        if admissible(sc["cfg"]):
            out.append(sc)
    return out


def window_ties(rng, count):
    """C12/C07/C03: a full window, jobs queued behind it, running jobs that finish in
    the same instant but zero, one or two loop iterations apart, and successors
    waiting behind some of them"""
    out = []
    while len(out) < count:
        w = rng.choice([1, 2, 2, 3])
        k = rng.randint(w + 1, w + 4)
        reqs = [[] for _ in range(k)]
        for _ in range(rng.randint(1, 3)):
            reqs.append(sorted(rng.sample(range(2, 2 + k), rng.randint(1, 2))))
        n = len(reqs) + 1
        base = rng.choice([1, 1, 2])
        dur = [0] + [base if rng.random() < 0.8 else base + 1 for _ in range(k)] + \
            [rng.choice([0, 1]) for _ in range(n - 1 - k)]
        sc = _mk(rng, flat(reqs), dur=dur, win=[w] + [0] * (n - 1),
                 out=["ok"] + [rng.choice(["ok"] * 5 + ["exc"]) for _ in range(n - 1)])
        sc["harness"]["k"] = [rng.choice([0, 1, 1, 2, 3]) for _ in range(n)]
        out.append(sc)
    return out


def simultaneous_failures(rng, count):
    """C02/C04/C05: several jobs of one scheduler raise in the same instant, with
    mixed critical flags, under every iteration order; a successor waits behind them"""
    out = []
    while len(out) < count:
        k = rng.randint(2, 5)
        nested = rng.random() < 0.4
        t = rng.choice([0, 1, 2])
        group = [J() for _ in range(k)]
        tail = [("J", sorted(rng.sample(range(k), rng.randint(1, k)))) for _ in range(rng.randint(1, 2))]
        extra = [J() for _ in range(rng.randint(0, 2))]
        members = group + tail + extra
        shape = tree(S([J(), S(members, 0), J(1)])) if nested else tree(S(members))
        kind, parent, _ = shape
        n = len(kind)
        inner = max(i for i in range(n) if kind[i] == "sched") + 1
        mem = [i for i in range(n) if parent[i] == inner]
        dur, outc, crit = [0] * n, ["ok"] * n, [False] * n
        for idx, i in enumerate(mem):
            if idx < k:
                dur[i] = t
                outc[i] = "exc" if rng.random() < 0.8 else "ok"
                crit[i] = rng.random() < 0.4
            elif idx < k + len(tail):
                dur[i] = rng.choice([0, 1])
            else:
                dur[i] = rng.choice([t, t + 1, t + 2])
        for i in range(n):
            if kind[i] == "job" and parent[i] != inner:
                dur[i] = rng.choice([0, 1])
            if kind[i] == "sched":
                crit[i] = rng.random() < 0.5
        sc = _mk(rng, shape, dur=dur, out=outc, crit=crit,
                 win=[rng.choice([0, 0, 0, 2, 3]) if kind[i] == "sched" else 0 for i in range(n)],
                 cdur=[rng.choice([0, 0, 1]) for _ in range(n)], pure=rng.random() < 0.2)
        sc["harness"]["k"] = [rng.choice([0, 0, 0, 1]) for _ in range(n)]
        out.append(sc)
    return out


def nested_gap(rng, count):
    """C01/C10/C11: a job requires both a nested scheduler and a sibling that
    finishes while the nested run is winding down (cancelling its forever
    jobs, running slow shutdown handlers) after its last regular job"""
    out = []
    for _ in range(count):
        x = rng.choice([0, 1, 2])
        sd = rng.choice([0, 1, 2, 3])
        cd = rng.choice([0, 1, 2])
        with_forever = rng.random() < 0.6
        inner = [J(), J(0)] if rng.random() < 0.4 else [J()]
        if with_forever:
            inner.append(J())
        deep = rng.random() < 0.45
        nested = S([S(inner)]) if deep else S(inner)
        others = rng.randint(1, 2)
        kids = [nested] + [J() for _ in range(others)]
        kids.append(("J", list(range(len(kids)))))       # requires everything before it
        if rng.random() < 0.5:
            kids.append(J(len(kids) - 1))
        shape = tree(S(kids))
        kind, parent, _ = shape
        n = len(kind)
        gap_lo, gap_hi = x, x + max(sd, cd) + 1
        dur, sdur, cdur, forever = [0] * n, [0] * n, [0] * n, [False] * n
        stmo = [rng.choice([-1, 3, 4]) if kind[i] == "sched" else 1 for i in range(n)]
        inner_sched = max(i for i in range(n) if kind[i] == "sched") + 1
        members = [i for i in range(n) if parent[i] == inner_sched]
        for idx, i in enumerate(members):
            dur[i] = x if idx < len(members) - 1 or not with_forever else -1
            sdur[i] = rng.choice([0, sd])
            cdur[i] = cd
            if with_forever and idx == len(members) - 1:
                forever[i] = True
        for i in range(n):
            if kind[i] == "job" and parent[i] == 1:
                dur[i] = rng.randint(gap_lo, gap_hi) if not _reqs_everything(shape, i) else rng.choice([0, 1])
        tmo = [-1] * n
        if deep and rng.random() < 0.6:
            # the middle scheduler expires while the inner one is winding down
            mid = [i for i in range(n) if kind[i] == "sched"][1]
            tmo[mid] = x + rng.choice([0, 1, 1, 2])
            for i in members:
                cdur[i] = max(cdur[i], rng.choice([2, 3]))
        sc = _mk(rng, shape, dur=dur, sdur=sdur, cdur=cdur, forever=forever, stmo=stmo, tmo=tmo,
                 crit=[rng.random() < 0.3 for _ in range(n)],
                 win=[rng.choice([0, 0, 0, 2]) if kind[i] == "sched" else 0 for i in range(n)])
        sc["harness"]["k"] = [rng.choice([0, 0, 1, 2]) for _ in range(n)]
        if admissible(sc["cfg"]):
            out.append(sc)
    return out


def forever_failure_ties(rng, count):
    """C03 / C09 / C02: a forever job that ends (returning or raising) in the very instant, and
    the very loop iteration, of the last regular completion, beside a forever job that never
    ends and without any timeout: the run must end there and then (after C03-m15, which
    counts such a job into the completions and steps over the end of the run)"""
    out = []
    while len(out) < count:
        nested = rng.random() < 0.35
        k = rng.randint(1, 3)
        last = rng.choice([1, 2])
        reqs = [[] for _ in range(k + 2)]
        if k >= 2 and rng.random() < 0.5:
            reqs[1] = [2]
        shape = flat(reqs)
        if nested:
            shape = tree(S([J(), S([J(*[r - 2 for r in rq]) for rq in reqs], 0)]))
        kind = shape[0]
        n = len(kind)
        jobs = [i for i in range(n) if kind[i] == "job"][-(k + 2):]
        dur = [0] * n
        forever = [False] * n
        out_ = ["ok"] * n
        for i in jobs[:k]:
            dur[i] = rng.choice([0, last])
        dur[jobs[0]] = last
        if reqs[1]:
            dur[jobs[0]], dur[jobs[1]] = last - 1 if last > 1 else 0, 1 if last > 1 else last
            if last == 1:
                dur[jobs[0]], dur[jobs[1]] = 0, 1
        forever[jobs[k]] = forever[jobs[k + 1]] = True
        dur[jobs[k]] = last
        out_[jobs[k]] = rng.choice(["exc", "exc", "ok"])
        dur[jobs[k + 1]] = -1
        sc = _mk(rng, shape, dur=dur, forever=forever, out=out_,
                 win=[0] * n, tmo=[-1] * n, crit=[False] * n, cdur=[rng.choice([0, 0, 1]) for _ in range(n)])
        sc["harness"]["k"] = [0] * n
        if admissible(sc["cfg"]):
            out.append(sc)
    return out


def _reqs_everything(shape, i):
    return len(shape[2][i]) >= 2 or (shape[2][i] and shape[0][shape[2][i][0] - 1] == "job"
                                     and len(shape[2][shape[2][i][0] - 1]) >= 2)


STRUCTURED = {
    "C01": [(joins, 0.25), (small_perms, 0.1), (nested_gap, 0.15), (between_waits, 0.08)],
    "C02": [(tie_groups, 0.3), (simultaneous_failures, 0.15)],
    "C03": [(window_failures, 0.16), (forevers, 0.04), (forever_failure_ties, 0.03), (deadlines, 0.08), (window_ties, 0.1), (failed_nested_successors, 0.08),
            (cancel_cliques, 0.08), (empty_stages, 0.06), (outside_hypothesis, 0.04), (late_shutdown_bounds, 0.04)],
    "C04": [(critical_instants, 0.15), (deadlines, 0.2), (crit_chains, 0.15), (simultaneous_failures, 0.15),
            (windowed_critical_abort, 0.05)],
    "C05": [(critical_instants, 0.3), (simultaneous_failures, 0.15), (nested_abort_ties, 0.1), (between_waits, 0.06),
            (nested_failure_ties, 0.05)],
    "C06": [(window_failures, 0.3), (simultaneous_failures, 0.1)],
    "C07": [(window_failures, 0.25), (tie_groups, 0.1), (critical_instants, 0.1), (window_ties, 0.15),
            (sibling_windows, 0.06)],
    "C08": [(deadlines, 0.45), (nested_abort_ties, 0.1), (between_waits, 0.05)],
    "C09": [(forevers, 0.42), (forever_failure_ties, 0.03), (empty_stages, 0.04), (cancel_cliques, 0.04)],
    "C10": [(crit_chains, 0.2), (nested_gap, 0.12), (failed_nested_successors, 0.13), (sibling_windows, 0.08),
            (nested_failure_ties, 0.08)],
    "C11": [(shutdown_grid, 0.25), (deadlines, 0.1), (nested_gap, 0.08), (nested_abort_ties, 0.08), (between_waits, 0.06),
            (cancel_cliques, 0.05)],
    "C12": [(joins, 0.15), (small_perms, 0.15), (tie_groups, 0.15), (window_ties, 0.25)],
    "C13": [(shutdown_grid, 0.45), (late_shutdown_bounds, 0.05)],
    "C14": [(window_failures, 0.15), (critical_instants, 0.1), (window_ties, 0.15)],
}


def scenarios(prop, count, seed):
    """`count` scenarios for property `prop` (about a quarter of them from the
    common random core, which is the same for every property and seed)"""
    rng = random.Random("%s-%d" % (prop, seed))
    core = random.Random("core-%d" % seed)
    out = []
    ncore = count // 4
    for _ in range(ncore):
        out.append(random_admissible(core, 0))
    left = count - ncore
    for gen, share in STRUCTURED.get(prop, []):
        out.extend(gen(rng, int(count * share)))
    prof = PROFILES.get(prop)
    while len(out) < count:
        out.append(random_admissible(rng, 0, prof))
    out = out[:count]
    stall_p = {"C08": 0.25, "C04": 0.15, "C03": 0.1, "C02": 0.1, "C09": 0.1}.get(prop, 0.04)
    for i, sc in enumerate(out):
        sc["sid"] = i + 1
        # predicate samples only where they are the subject (a mismatch there would
        # hide what comes later in the same trace)
        sc["snap"] = prop == "C14"
        hrn = sc["harness"]
        n = sc["cfg"]["n"]
        hrn["prep"] = rng.choice([0, 0, 0, 1, 2, 3, 3, 4, 4, 5, 6])
        hrn["omitdefaults"] = rng.random() < 0.3
        hrn["tupleret"] = rng.random() < 0.2
        hrn["emptymsg"] = rng.random() < 0.3
        hrn["rterr"] = rng.choice([False, False, False, False, True, True, "state", "lookup", "timeout"])
        hrn["earlycoro"] = rng.random() < 0.15  # the coroutine object of the run is created before the edges
        hrn["enumwin"] = rng.random() < 0.2     # window sizes that are members of an IntEnum
        hrn["lateattr"] = rng.random() < 0.2
        hrn["awaitable"] = rng.choice([0, 0, 0, 0, 0, 0, 1, 1, 2, 2])
        hrn["baseexc"] = rng.random() < 0.2     # job exceptions that do not derive from Exception
        hrn["awtjobs"] = rng.random() < 0.25    # Job(<awaitable that is not a coroutine object>)
        hrn["watch"] = rng.random() < 0.2       # schedulers are given a Watch (debug time display)
        hrn["peek"] = rng.random() < 0.2        # the read-only API is used while the run goes on
        hrn["zerowin"] = rng.random() < 0.3     # jobs_window=0 for "no limit" (instead of None)
        hrn["sabsorb"] = rng.random() < 0.3     # co_shutdown() handlers that absorb their cancellation
        hrn["sraise"] = rng.random() < 0.2      # co_shutdown() handlers that end by raising
        # now and then the caller cancels the whole run from outside
        if rng.random() < {"C11": 0.15, "C13": 0.08, "C05": 0.05}.get(prop, 0.03):
            sc["cfg"]["ucancel"] = rng.choice([0, 1, 1, 2, 3])
            # ... and then shuts the tree down explicitly, as the documentation asks
            sc["cfg"]["xshut"] = rng.random() < 0.7 and admissible(sc["cfg"])
        elif rng.random() < 0.15 and admissible(sc["cfg"]):
            sc["cfg"]["xshut"] = True
        # now and then the clean-up of a cancelled body fails: it ends by raising something else
        if rng.random() < {"C04": 0.12, "C14": 0.12, "C11": 0.1, "C05": 0.08, "C08": 0.08}.get(prop, 0.05):
            sc["cfg"]["cout"] = ["exc" if sc["cfg"]["kind"][j] == "job" and rng.random() < 0.5 else "cancelled"
                                 for j in range(n)]
        # now and then a body that nobody requires ends in CancelledError on its own
        if rng.random() < {"C11": 0.1, "C14": 0.1, "C02": 0.08, "C09": 0.08}.get(prop, 0.04):
            required = {r for rq in sc["cfg"]["req"] for r in rq}
            for j in range(n):
                if sc["cfg"]["kind"][j] == "job" and (j + 1) not in required and sc["cfg"]["dur"][j] >= 0 \
                        and rng.random() < 0.5:
                    sc["cfg"]["out"][j] = "selfc"
        # now and then shutdown() has been called on the tree before the run
        if rng.random() < {"C04": 0.08, "C13": 0.08, "C08": 0.05, "C11": 0.05}.get(prop, 0.02):
            sc["cfg"]["preshut"] = True
        if prop in ("C06", "C03", "C14", "C05", "C11", "C01", "C10", "C12", "C13") and rng.random() < 0.25:
            hrn["verbose"] = True
        if hrn.get("verbose") == "keep":
            hrn["verbose"] = True
        if hrn.get("verbose") is True and rng.random() < 0.4:
            hrn["verbose"] = "mixed"            # some schedulers of the tree are verbose, some are not
        hrn["addstyle"] = rng.choice(["ctor", "ctor", "add", "update", "topdown"])
        hrn["nolabel"] = rng.random() < 0.25
        if rng.random() < stall_p:
            hrn["stall"] = [rng.choice([0, 0, 1, 2, 3]) if sc["cfg"]["kind"][j] == "job" else 0
                            for j in range(n)]
    return out
