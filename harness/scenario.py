"""
Scenario families.

A scenario is a dict {"sid", "cfg", "harness"}; `cfg` is what the TLA+
specification reads (DESIGN.md appendix A), `harness` holds the schedule
parameters the specification abstracts from (loop-iteration offsets, hash
permutation, job flavour, verbosity).

Two kinds of generators:
  * model families (free mode: dur = -2, out = "any"), small and exhaustive,
    for TLC on Orchestra itself;
  * scripted scenarios (concrete integer durations and outcomes), exhaustive
    grids on small shapes and seeded random ones, for real runs.
"""

import itertools
import random


def mkcfg(kind, parent, req, **kw):
    n = len(kind)

    def arr(key, default):
        val = kw.get(key)
        if val is None:
            return [default] * n
        assert len(val) == n, (key, val, n)
        return list(val)
    return {
        "n": n, "pure": bool(kw.get("pure", False)),
        "kind": list(kind), "parent": list(parent),
        "req": [sorted(r) for r in req],
        "crit": arr("crit", False), "forever": arr("forever", False),
        "win": arr("win", 0), "tmo": arr("tmo", -1), "stmo": arr("stmo", 1),
        "dur": arr("dur", 1), "out": arr("out", "ok"),
        "sdur": arr("sdur", 0), "cdur": arr("cdur", 0), "scdur": arr("scdur", 0),
        "horizon": kw.get("horizon", 0), "ucancel": kw.get("ucancel", -1),
        "cwait": arr("cwait", 0), "preshut": bool(kw.get("preshut", False)),
        "xshut": bool(kw.get("xshut", False)), "cout": arr("cout", "cancelled"),
    }


# ---------------------------------------------------------------- shapes
# a shape is (kind, parent, req) with node 1 the root scheduler

def flat(reqs):
    """root with len(reqs) jobs; reqs[i] = requirements of job i+2 (as node ids)"""
    n = len(reqs) + 1
    return (["sched"] + ["job"] * (n - 1), [0] + [1] * (n - 1),
            [[]] + [list(r) for r in reqs])


def all_dags(k):
    """all DAGs on k labelled jobs whose edges go from lower to higher index
    (every DAG is isomorphic to one of these)"""
    pairs = [(i, j) for j in range(k) for i in range(j)]
    for mask in range(1 << len(pairs)):
        reqs = [[] for _ in range(k)]
        for b, (i, j) in enumerate(pairs):
            if mask >> b & 1:
                reqs[j].append(i + 2)
        yield reqs


def tree(spec):
    """spec: nested description, e.g.
         ("S", [("J", []), ("S", [("J", [])], [0])])
       a node is ("J", reqs) or ("S", children, reqs); reqs are indices of
       siblings (0-based position among the children of the same parent)"""
    kind, parent, req = [], [], []

    def rec(node, par):
        me = len(kind) + 1
        kind.append("sched" if node[0] == "S" else "job")
        parent.append(par)
        req.append(None)
        if node[0] == "S":
            ids = []
            for child in node[1]:
                ids.append(rec(child, me))
            for child, cid in zip(node[1], ids):
                rq = child[2] if child[0] == "S" and len(child) > 2 else \
                    (child[1] if child[0] == "J" else [])
                req[cid - 1] = [ids[r] for r in rq]
        return me
    rec(spec, 0)
    req[0] = []
    return kind, parent, req


def J(*reqs):
    return ("J", list(reqs))


def S(children, *reqs):
    return ("S", list(children), list(reqs))


# ---------------------------------------------------------------- helpers
def jobs_of(cfg):
    return [i + 1 for i, k in enumerate(cfg["kind"]) if k == "job"]


def scheds_of(cfg):
    return [i + 1 for i, k in enumerate(cfg["kind"]) if k == "sched"]


def kids_of(cfg, s):
    return [i + 1 for i, p in enumerate(cfg["parent"]) if p == s]


def depth_of(cfg, n):
    d = 0
    while cfg["parent"][n - 1] != 0:
        n = cfg["parent"][n - 1]
        d += 1
    return d


def ends(cfg, n, memo=None):
    """python twin of OrchestraProps!Ends"""
    if cfg["kind"][n - 1] == "job":
        return cfg["dur"][n - 1] != -1
    return cfg["tmo"][n - 1] >= 0 or good_sched(cfg, n)


def upreq(cfg, n):
    seen = set(cfg["req"][n - 1])
    todo = list(seen)
    while todo:
        x = todo.pop()
        for r in cfg["req"][x - 1]:
            if r not in seen:
                seen.add(r)
                todo.append(r)
    return seen


def good_sched(cfg, s):
    kids = kids_of(cfg, s)
    nf = [k for k in kids if not cfg["forever"][k - 1]]
    if kids and not nf:
        return False
    for k in nf:
        if not ends(cfg, k):
            return False
        for r in upreq(cfg, k):
            if not ends(cfg, r):
                return False
    win = cfg["win"][s - 1]
    if win != 0 and win <= len([k for k in kids if not ends(cfg, k)]):
        return False
    return True


def admissible(cfg):
    """python twin of OrchestraProps!Admissible"""
    for s in scheds_of(cfg):
        if not ends(cfg, s):
            return False
    for j in jobs_of(cfg):
        if cfg["sdur"][j - 1] < 0 and cfg["stmo"][cfg["parent"][j - 1] - 1] < 0:
            return False
    for j, other in enumerate(cfg.get("cwait", []), start=1):
        if other:
            par = cfg["parent"][j - 1]
            if cfg["kind"][j - 1] != "job" or cfg["kind"][other - 1] != "job" or \
                    cfg["parent"][other - 1] != par or cfg["req"][other - 1] or cfg["win"][par - 1]:
                return False
    return True


# ---------------------------------------------------------------- random
SHAPES_NESTED = [
    S([J(), S([J(), J(0)], 0), J(1)]),
    S([J(), S([J(), J()]), J(0, 1)]),
    S([S([J(), J(0)]), S([J()], 0)]),
    S([J(), S([J(), S([J(), J()], 0)]), J(0)]),
    S([S([S([J(), J(0)]), J()]), J()]),
    S([J(), S([]), J(1)]),
    S([S([J()]), J(), J(0, 1)]),
    S([J(), J(0), S([J(), J(), J(0, 1)], 0), J(2)]),
]


def random_tree(rng, max_nodes=9, max_depth=3, p_sched=0.3, p_edge=0.4):
    """random nested description"""
    budget = [rng.randint(2, max_nodes) - 1]

    def children(depth):
        out = []
        cnt = rng.randint(0 if depth > 0 else 1, 4)
        for _ in range(cnt):
            if budget[0] <= 0:
                break
            budget[0] -= 1
            reqs = [i for i in range(len(out)) if rng.random() < p_edge]
            if depth < max_depth - 1 and rng.random() < p_sched:
                out.append(("S", children(depth + 1), reqs))
            else:
                out.append(("J", reqs))
        return out
    return ("S", children(0), [])


def random_scenario(rng, sid, profile=None):
    """a scripted random scenario; `profile` biases the parameters"""
    pf = profile or {}
    while True:
        if rng.random() < pf.get("p_flat", 0.3):
            k = rng.randint(1, pf.get("max_flat", 7))
            reqs = [[i + 2 for i in range(j) if rng.random() < 0.35]
                    for j in range(k)]
            kind, parent, req = flat(reqs)
        else:
            kind, parent, req = tree(random_tree(
                rng, max_nodes=pf.get("max_nodes", 9)))
        n = len(kind)
        if n >= 2:
            break
    maxd = pf.get("max_dur", 3)
    crit, forever, win, tmo, stmo, dur, out, sdur, cdur = \
        [], [], [], [], [], [], [], [], []
    scdur = []
    for i in range(n):
        is_s = kind[i] == "sched"
        crit.append(rng.random() < pf.get("p_crit", 0.4))
        forever.append(rng.random() < pf.get("p_forever", 0.15))
        win.append(rng.choice(pf.get("wins", [0, 0, 0, 1, 2, 3])) if is_s else 0)
        tmo.append(rng.choice(pf.get("tmos", [-1, -1, -1, 0, 1, 2, 3, 4])) if is_s else -1)
        stmo.append(rng.choice(pf.get("stmos", [1, 1, 0, 2, -1])) if is_s else 1)
        if is_s:
            dur.append(0)
            out.append("ok")
            sdur.append(0)
            cdur.append(0)
            scdur.append(0)
        else:
            never = rng.random() < pf.get("p_never", 0.05)
            dur.append(-1 if never else rng.randint(0, maxd))
            out.append("exc" if rng.random() < pf.get("p_exc", 0.2) else "ok")
            sdur.append(rng.choice(pf.get("sdurs", [0, 0, 0, 1, 2, 3])))
            cdur.append(rng.choice(pf.get("cdurs", [0, 0, 0, 1, 2])))
            scdur.append(rng.choice(pf.get("scdurs", [0, 0, 0, 0, 1, 2])))
    crit[0] = rng.random() < 0.4
    forever[0] = False
    cfg = mkcfg(kind, parent, req, crit=crit, forever=forever, win=win,
                tmo=tmo, stmo=stmo, dur=dur, out=out, sdur=sdur, cdur=cdur, scdur=scdur,
                pure=rng.random() < pf.get("p_pure", 0.25))
    perm = list(range(1, n + 1))
    rng.shuffle(perm)
    harness = {
        "k": [rng.choice([0, 0, 0, 1, 2]) for _ in range(n)],
        "hash": perm,
        "flavour": [rng.choice(["abs", "job"]) for _ in range(n)],
        "verbose": rng.random() < 0.1,
    }
    return {"sid": sid, "cfg": cfg, "harness": harness}


def random_admissible(rng, sid, profile=None, tries=200):
    for _ in range(tries):
        sc = random_scenario(rng, sid, profile)
        if admissible(sc["cfg"]):
            return sc
    raise RuntimeError("no admissible scenario found")
