"""
Virtual-time asyncio event loop.

A plain SelectorEventLoop whose clock is a variable and whose selector never
blocks: when no handle is ready, the clock jumps to the earliest timer; when
there is neither a ready handle nor a timer, `Deadlock` is raised (so a hang is
detected at once instead of after a wall-clock timeout).

The loop also keeps a census of every task created on it (clean-exit checks)
and calls `on_tick(old, new)` just before each clock jump (quiescent point:
nothing is runnable at time `old`).
"""

import asyncio
import selectors


class Deadlock(Exception):
    """nothing is ready and no timer is armed"""


class Livelock(Exception):
    """the run went past its horizon (virtual time or number of iterations)"""


class _VSelector(selectors.BaseSelector):
    """wraps a real selector (for the loop's self-pipe), never blocks"""

    def __init__(self, loop):
        self._real = selectors.DefaultSelector()
        self._loop = loop

    def register(self, fileobj, events, data=None):
        return self._real.register(fileobj, events, data)

    def unregister(self, fileobj):
        return self._real.unregister(fileobj)

    def modify(self, fileobj, events, data=None):
        return self._real.modify(fileobj, events, data)

    def get_map(self):
        return self._real.get_map()

    def close(self):
        self._real.close()

    def select(self, timeout=None):
        loop = self._loop
        loop.iterations += 1
        if loop.max_iterations and loop.iterations > loop.max_iterations:
            raise Livelock("too many loop iterations")
        if timeout is None:
            # no ready handle, no timer: nobody can ever wake us up
            raise Deadlock()
        if timeout > 0:
            # _run_once has already dropped cancelled timers from the head
            when = loop._scheduled[0]._when             # pylint: disable=W0212
            if loop.horizon is not None and when > loop.horizon:
                raise Livelock("virtual time past horizon")
            old = loop.vtime
            if loop.on_tick is not None:
                loop.on_tick(old, when)
            loop.vtime = when
        return self._real.select(0)


class VirtualLoop(asyncio.SelectorEventLoop):
    """see module docstring"""

    def __init__(self):
        self.vtime = 0
        self.iterations = 0
        self.max_iterations = 200000
        self.horizon = None
        self.on_tick = None
        self.census = []
        super().__init__(_VSelector(self))
        # integer virtual seconds: exact comparisons
        self._clock_resolution = 1e-9
        self.set_task_factory(self._factory)

    def time(self):
        return self.vtime

    def _factory(self, loop, coro, **kwds):
        task = asyncio.Task(coro, loop=loop, **kwds)
        self.census.append(task)
        return task

    def unfinished(self):
        """tasks created on this loop that are not done"""
        return [t for t in self.census if not t.done()]

    def drain(self):
        """cancel whatever is left so that the loop can be closed quietly"""
        left = self.unfinished()
        for task in left:
            task.cancel()
        if left:
            try:
                self.run_until_complete(
                    asyncio.gather(*left, return_exceptions=True))
            except (Deadlock, Livelock):
                pass
            except BaseException:                       # pylint: disable=W0703
                pass


class ClockShim:
    """stands for the `time` module inside asynciojobs.purescheduler"""

    def __init__(self):
        self.loop = None

    def time(self):
        if self.loop is None:
            import time as _time
            return _time.time()
        return self.loop.vtime
